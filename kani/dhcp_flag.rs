//@ target: crates/erbium-core/src/dhcp/dhcppkt.rs
//@ package: erbium-core
//@ harness: broadcast_flag_is_msb complete props=C12
// C12: broadcast(f) <=> f & 0x8000 != 0 for all 65536 flag values (RFC 2131 figure 2: B is the most significant bit)
use super::*;

#[kani::proof]
#[kani::stub(std::hash::RandomState::new, fixed_random_state)]
fn broadcast_flag_is_msb() {
    let flags: u16 = kani::any();
    let d = Dhcp {
        op: OP_BOOTREQUEST,
        htype: HWTYPE_ETHERNET,
        hlen: 6,
        hops: 0,
        xid: 0,
        secs: 0,
        flags,
        ciaddr: net::Ipv4Addr::UNSPECIFIED,
        yiaddr: net::Ipv4Addr::UNSPECIFIED,
        siaddr: net::Ipv4Addr::UNSPECIFIED,
        giaddr: net::Ipv4Addr::UNSPECIFIED,
        chaddr: vec![],
        sname: vec![],
        file: vec![],
        options: Default::default(),
    };
    assert!(d.get_broadcast_flag() == (flags & 0x8000 != 0));
}

fn fixed_random_state() -> std::hash::RandomState {
    unsafe { std::mem::transmute([0u64; 2]) }
}
