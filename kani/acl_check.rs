//@ target: crates/erbium-core/src/acl.rs
//@ package: erbium-core
//@ harness: acl_rule_black_box bounded props=C08 timeout=600
// Acl::check as a black box (whatever its body looks like): a rule matches a client iff EVERY condition it has holds -- the address is
// inside at least one of its prefixes (if it lists any) AND the client's unix-ness equals match-unix (if set); a matching rule yields
// its own permission.  BOUNDED: rules with 0, 1 or 2 IPv4 prefixes (symbolic address and length 0..=32), match-unix unset / false /
// true, IPv4 clients (symbolic address and port).  The Verus unit acl proves the same for every rule and client, but only for the body
// it was written against; this check also judges a rewritten body.
use super::*;

fn spec_in4(addr: u32, len: u8, ip: u32) -> bool {
    if len == 0 { true } else { (addr ^ ip) >> (32 - len as u32) == 0 }
}

#[kani::proof]
#[kani::unwind(4)]
fn acl_rule_black_box() {
    use erbium_net::addr::WithPort as _;
    let a1: u32 = kani::any();
    let l1: u8 = kani::any();
    let a2: u32 = kani::any();
    let l2: u8 = kani::any();
    kani::assume(l1 <= 32 && l2 <= 32);
    let nprefix: u8 = kani::any();
    kani::assume(nprefix <= 3);          // 3 = no match-subnets condition at all
    let p1 = Prefix::V4(Prefix4 { addr: std::net::Ipv4Addr::from(a1), prefixlen: l1 });
    let p2 = Prefix::V4(Prefix4 { addr: std::net::Ipv4Addr::from(a2), prefixlen: l2 });
    let subnet = match nprefix { 0 => Some(vec![]), 1 => Some(vec![p1]), 2 => Some(vec![p1, p2]), _ => None };
    let unix: Option<bool> = if kani::any() { Some(kani::any()) } else { None };
    let dns: bool = kani::any();
    let rule = Acl { subnet, unix, permission: Permission { allow_dns_recursion: dns, allow_http: false, allow_http_metrics: false, allow_http_leases: false } };
    let ip: u32 = kani::any();
    let port: u16 = kani::any();
    let client = Attributes { addr: std::net::Ipv4Addr::from(ip).with_port(port) };
    let in_subnets = match nprefix { 0 => false, 1 => spec_in4(a1, l1, ip), 2 => spec_in4(a1, l1, ip) || spec_in4(a2, l2, ip), _ => true };
    let unix_ok = match unix { Some(u) => !u, None => true };      // an IPv4 client is not a unix-socket client
    let got = rule.check(&client);
    assert!(got.is_some() == (in_subnets && unix_ok));
    if let Some(p) = got { assert!(p.allow_dns_recursion == dns); }
    std::mem::forget(rule);
}
