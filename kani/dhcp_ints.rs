//@ target: crates/erbium-core/src/dhcp/dhcppkt.rs
//@ package: erbium-core
//@ harness: int_option_u16 bounded props=C05,C12
//@ harness: int_option_u32 bounded props=C05,C12
//@ harness: int_option_i32 bounded props=C05,C12
//@ harness: int_option_u64 bounded props=C05,C12 timeout=300
// The integer DhcpParse impls (u16, u32, i32, u64: lease time, MTU, maximum message size, renewal/rebinding time, ...) as black boxes:
// for an option value of ANY length the decoder returns a value -- it never panics or overflows -- and that value is the big-endian
// number formed by the last size_of::<T>() octets (all of them when there are fewer).  The handlers and the request logger decode
// every option of every received packet, and RFC 3396 concatenation makes a value longer than the integer reachable from the wire.
// BOUNDED: values of 0 ..= size_of::<T>() + 2 octets, symbolic octets.
use super::*;

fn tail_value(src: &[u8], width: usize) -> u64 {
    let mut acc: u64 = 0;
    let start = if src.len() > width { src.len() - width } else { 0 };
    let mut k = start;
    while k < src.len() { acc = (acc << 8) | src[k] as u64; k += 1; }
    acc
}

#[kani::proof]
#[kani::unwind(8)]
fn int_option_u16() {
    let src: [u8; 4] = kani::any();
    let n: usize = kani::any();
    kani::assume(n <= 4);
    let got = <u16 as DhcpParse>::parse_into(&src[..n]);
    assert!(got == Some(tail_value(&src[..n], 2) as u16));
}
#[kani::proof]
#[kani::unwind(10)]
fn int_option_u32() {
    let src: [u8; 6] = kani::any();
    let n: usize = kani::any();
    kani::assume(n <= 6);
    let got = <u32 as DhcpParse>::parse_into(&src[..n]);
    assert!(got == Some(tail_value(&src[..n], 4) as u32));
}
#[kani::proof]
#[kani::unwind(10)]
fn int_option_i32() {
    let src: [u8; 6] = kani::any();
    let n: usize = kani::any();
    kani::assume(n <= 6);
    let got = <i32 as DhcpParse>::parse_into(&src[..n]);
    assert!(got == Some(tail_value(&src[..n], 4) as u32 as i32));
}
#[kani::proof]
#[kani::unwind(14)]
fn int_option_u64() {
    let src: [u8; 10] = kani::any();
    let n: usize = kani::any();
    kani::assume(n <= 10);
    let got = <u64 as DhcpParse>::parse_into(&src[..n]);
    assert!(got == Some(tail_value(&src[..n], 8)));
}
