//@ target: crates/erbium-core/src/dns/dnspkt.rs
//@ package: erbium-core
//@ harness: compress_same_name bounded props=C14,C03,C04,C05 timeout=200
//@ harness: compress_suffix bounded props=C14,C03,C04,C05 timeout=200
//@ harness: compress_sibling bounded props=C14,C03,C04,C05 timeout=200
//@ harness: compress_high_offset bounded props=C14,C04,C05 timeout=300
//@ harness: compress_three_labels bounded props=C14,C03,C04,C05 tier=thorough timeout=1500
//@ harness: compress_three_pushes bounded props=C14,C03,C04,C05 tier=thorough timeout=1500
// Name compression (push_compressed_domain / push_prefix: recursion over a LinkedList tree with `&mut Option<&mut ..>` re-borrows,
// outside Verus).  BOUNDED: names of at most 2 one-octet labels, two pushes, symbolic base offset.
use super::*;

fn lbl(b: u8) -> Label {
    Label(vec![b])
}

// a compression pointer at v[at..at+2]: below 16384, inside the message, pointing backwards; returns the buffer index it refers to
fn pointer(v: &[u8], base: usize, at: usize) -> usize {
    assert!(v[at] & 0xc0 == 0xc0);
    let p = (((v[at] & 0x3f) as usize) << 8) | v[at + 1] as usize;
    assert!(p < 0x4000);
    assert!(p >= base && p - base < at);
    p - base
}

// [a] then [b], both label octets symbolic: a pointer to the first name iff the two labels are the SAME octets and the first
// was written below the 14-bit limit; any other label (including one differing only in letter case) is written out in full,
// so the decoder gets back exactly the original spelling
#[kani::proof]
#[kani::unwind(6)]
fn compress_same_name() {
    let base: usize = kani::any();
    kani::assume(base <= 65535);
    let a: u8 = kani::any();
    let b: u8 = kani::any();
    let d1 = Domain(vec![lbl(a)]);
    let d2 = Domain(vec![lbl(b)]);
    let mut offsets = DomainOffsets::new();
    let mut v: Vec<u8> = Vec::new();
    push_compressed_domain(&mut v, &d1, &mut offsets, base);
    assert!(v.len() == 3 && v[0] == 1 && v[1] == a && v[2] == 0);
    push_compressed_domain(&mut v, &d2, &mut offsets, base);
    if a == b && base < 0x4000 {
        assert!(v.len() == 5);
        assert!(pointer(&v, base, 3) == 0);
    } else {
        assert!(v.len() == 6 && v[3] == 1 && v[4] == b && v[5] == 0);
    }
    std::mem::forget(v);
    std::mem::forget(offsets);
    std::mem::forget(d1);
    std::mem::forget(d2);
}

// [a, b] then [b]: the second is a pointer to the label b inside the first name (offset base + 2)
#[kani::proof]
#[kani::unwind(6)]
fn compress_suffix() {
    let base: usize = kani::any();
    kani::assume(base <= 65535);
    let d1 = Domain(vec![lbl(b'a'), lbl(b'b')]);
    let d2 = Domain(vec![lbl(b'b')]);
    let mut offsets = DomainOffsets::new();
    let mut v: Vec<u8> = Vec::new();
    push_compressed_domain(&mut v, &d1, &mut offsets, base);
    assert!(v.len() == 5 && v[0] == 1 && v[1] == b'a' && v[2] == 1 && v[3] == b'b' && v[4] == 0);
    push_compressed_domain(&mut v, &d2, &mut offsets, base);
    if base + 2 < 0x4000 {
        assert!(v.len() == 7);
        assert!(pointer(&v, base, 5) == 2);
    } else {
        assert!(v.len() == 8 && v[5] == 1 && v[6] == b'b' && v[7] == 0);
    }
    std::mem::forget(v);
    std::mem::forget(offsets);
    std::mem::forget(d1);
    std::mem::forget(d2);
}

// [a, b] then [c, b]: label c followed by a pointer to b
#[kani::proof]
#[kani::unwind(6)]
fn compress_sibling() {
    let base: usize = kani::any();
    kani::assume(base <= 65535);
    let d1 = Domain(vec![lbl(b'a'), lbl(b'b')]);
    let d2 = Domain(vec![lbl(b'c'), lbl(b'b')]);
    let mut offsets = DomainOffsets::new();
    let mut v: Vec<u8> = Vec::new();
    push_compressed_domain(&mut v, &d1, &mut offsets, base);
    push_compressed_domain(&mut v, &d2, &mut offsets, base);
    assert!(v[5] == 1 && v[6] == b'c');
    if base + 2 < 0x4000 {
        assert!(v.len() == 9);
        assert!(pointer(&v, base, 7) == 2);
    } else {
        assert!(v.len() == 10 && v[7] == 1 && v[8] == b'b' && v[9] == 0);
    }
    std::mem::forget(v);
    std::mem::forget(offsets);
    std::mem::forget(d1);
    std::mem::forget(d2);
}

// the same name three times at a high offset: never a pointer, never a panic
#[kani::proof]
#[kani::unwind(8)]
fn compress_high_offset() {
    let base: usize = kani::any();
    kani::assume(base >= 0x4000 && base <= usize::MAX - 64);
    let a: u8 = kani::any();
    let d1 = Domain(vec![lbl(a)]);
    let mut offsets = DomainOffsets::new();
    let mut v: Vec<u8> = Vec::new();
    push_compressed_domain(&mut v, &d1, &mut offsets, base);
    push_compressed_domain(&mut v, &d1, &mut offsets, base);
    assert!(v.len() == 6 && v[0] == 1 && v[1] == a && v[2] == 0 && v[3] == 1 && v[4] == a && v[5] == 0);
    std::mem::forget(v);
    std::mem::forget(offsets);
    std::mem::forget(d1);
}

// thorough tier: [a, b, c] then [x, b, c]: label x followed by a pointer to b (offset base + 2)
#[kani::proof]
#[kani::unwind(8)]
fn compress_three_labels() {
    let base: usize = kani::any();
    kani::assume(base <= 65535);
    let d1 = Domain(vec![lbl(b'a'), lbl(b'b'), lbl(b'c')]);
    let d2 = Domain(vec![lbl(b'x'), lbl(b'b'), lbl(b'c')]);
    let mut offsets = DomainOffsets::new();
    let mut v: Vec<u8> = Vec::new();
    push_compressed_domain(&mut v, &d1, &mut offsets, base);
    assert!(v.len() == 7);
    push_compressed_domain(&mut v, &d2, &mut offsets, base);
    assert!(v[7] == 1 && v[8] == b'x');
    // the dictionary is keyed from the last label down: b is reachable only through c, so both must lie below the 14-bit limit
    if base + 4 < 0x4000 {
        assert!(v.len() == 11);
        assert!(pointer(&v, base, 9) == 2);
    } else {
        // otherwise the suffix is written out again (never a pointer to an offset >= 16384)
        assert!(v.len() == 14 && v[9] == 1 && v[10] == b'b' && v[11] == 1 && v[12] == b'c' && v[13] == 0);
    }
    std::mem::forget(v);
    std::mem::forget(offsets);
    std::mem::forget(d1);
    std::mem::forget(d2);
}

// thorough tier: three pushes -- [a, b], [c, b], then [c, b] again: the third is a single pointer to the second name
#[kani::proof]
#[kani::unwind(8)]
fn compress_three_pushes() {
    let base: usize = kani::any();
    kani::assume(base <= 65535);
    let d1 = Domain(vec![lbl(b'a'), lbl(b'b')]);
    let d2 = Domain(vec![lbl(b'c'), lbl(b'b')]);
    let d3 = Domain(vec![lbl(b'c'), lbl(b'b')]);
    let mut offsets = DomainOffsets::new();
    let mut v: Vec<u8> = Vec::new();
    push_compressed_domain(&mut v, &d1, &mut offsets, base);
    push_compressed_domain(&mut v, &d2, &mut offsets, base);
    let at3 = v.len();
    push_compressed_domain(&mut v, &d3, &mut offsets, base);
    if base + 5 < 0x4000 {
        assert!(at3 == 9 && v.len() == 11);
        assert!(pointer(&v, base, 9) == 5);
    }
    std::mem::forget(v);
    std::mem::forget(offsets);
    std::mem::forget(d1);
    std::mem::forget(d2);
    std::mem::forget(d3);
}
