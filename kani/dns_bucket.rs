//@ target: crates/erbium-core/src/dns/bucket.rs
//@ package: erbium-core
//@ harness: bucket_check_contract complete props=C16
//@ harness: bucket_deplete_contract complete props=C16
//@ harness: quiet_client_minimum_charge complete props=C16
// Complete (loop-free, full-domain) harnesses on the real GenericTokenBucket with a symbolic clock.
use super::*;

static mut KNOW: u32 = 0;
struct KClock;
impl Clock for KClock {
    fn now() -> u32 { unsafe { KNOW } }
}
fn avail(last: u32, now: u32) -> i64 {
    let floor = now as i64 - 50;
    let z = if (last as i64) > floor { last as i64 } else { floor };
    2 * (now as i64 - z)
}

#[kani::proof]
fn bucket_check_contract() {
    let now: u32 = kani::any();
    let last: u32 = kani::any();
    let n: u32 = kani::any();
    kani::assume(now >= 50);
    unsafe { KNOW = now; }
    let b = GenericTokenBucket(last);
    assert!(b.check::<KClock>(n) == ((n as i64) <= avail(last, now)));
}

#[kani::proof]
fn bucket_deplete_contract() {
    let now: u32 = kani::any();
    let last: u32 = kani::any();
    let n: u32 = kani::any();
    kani::assume(now >= 50 && now <= 0xF000_0000 && last <= 0xF800_0000 && n <= 0x0100_0000);
    unsafe { KNOW = now; }
    let mut b = GenericTokenBucket(last);
    b.deplete::<KClock>(n);
    let z = if last > now - 50 { last } else { now - 50 };
    assert!(b.0 == z + (n + 1) / 2);
}

// C16 clause 2: a source silent for the whole refill period can pay the minimum charge of a REFUSED reply (200, dns/mod.rs)
#[kani::proof]
fn quiet_client_minimum_charge() {
    let now: u32 = kani::any();
    let last: u32 = kani::any();
    kani::assume(now >= 50 && last <= now - 50);
    unsafe { KNOW = now; }
    let b = GenericTokenBucket(last);
    assert!(b.check::<KClock>(200));
}
