//@ target: crates/erbium-core/src/dhcp/dhcppkt.rs
//@ package: erbium-core
//@ harness: ser_scalars_be complete props=C12
// The scalar impls of dhcppkt::Serialise (`for b in self.to_be_bytes().iter() { b.serialise(v) }`, `v.push(*self)`) are assumed in the
// Verus unit dhcpser to append exactly the big-endian octets; checked here against the real code for all values.
use super::*;

#[kani::proof]
#[kani::unwind(6)]
fn ser_scalars_be() {
    let p: u8 = kani::any();
    let a: u8 = kani::any();
    let b: u16 = kani::any();
    let c: u32 = kani::any();
    let d: u32 = kani::any();
    let mut v = vec![p];
    Serialise::serialise(&a, &mut v);
    Serialise::serialise(&b, &mut v);
    Serialise::serialise(&c, &mut v);
    Serialise::serialise(&std::net::Ipv4Addr::from(d), &mut v);
    assert!(v.len() == 12);
    assert!(v[0] == p && v[1] == a);
    assert!(v[2] == (b >> 8) as u8 && v[3] == (b & 0xff) as u8);
    assert!(v[4] == (c >> 24) as u8 && v[5] == ((c >> 16) & 0xff) as u8 && v[6] == ((c >> 8) & 0xff) as u8 && v[7] == (c & 0xff) as u8);
    assert!(v[8] == (d >> 24) as u8 && v[9] == ((d >> 16) & 0xff) as u8 && v[10] == ((d >> 8) & 0xff) as u8 && v[11] == (d & 0xff) as u8);
    std::mem::forget(v);
}
