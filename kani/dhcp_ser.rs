//@ target: crates/erbium-core/src/dhcp/dhcppkt.rs
//@ package: erbium-core
//@ harness: ser_scalars_be complete props=C12
//@ harness: fixed_field_4 bounded props=C12 timeout=300
//@ harness: fixed_field_16 bounded props=C12 tier=thorough timeout=1500
// The scalar impls of dhcppkt::Serialise (`for b in self.to_be_bytes().iter() { b.serialise(v) }`, `v.push(*self)`) are assumed in the
// Verus unit dhcpser to append exactly the big-endian octets; checked here against the real code for all values.
use super::*;

#[kani::proof]
#[kani::unwind(6)]
fn ser_scalars_be() {
    let p: u8 = kani::any();
    let a: u8 = kani::any();
    let b: u16 = kani::any();
    let c: u32 = kani::any();
    let d: u32 = kani::any();
    let mut v = vec![p];
    Serialise::serialise(&a, &mut v);
    Serialise::serialise(&b, &mut v);
    Serialise::serialise(&c, &mut v);
    Serialise::serialise(&std::net::Ipv4Addr::from(d), &mut v);
    assert!(v.len() == 12);
    assert!(v[0] == p && v[1] == a);
    assert!(v[2] == (b >> 8) as u8 && v[3] == (b & 0xff) as u8);
    assert!(v[4] == (c >> 24) as u8 && v[5] == ((c >> 16) & 0xff) as u8 && v[6] == ((c >> 8) & 0xff) as u8 && v[7] == (c & 0xff) as u8);
    assert!(v[8] == (d >> 24) as u8 && v[9] == ((d >> 16) & 0xff) as u8 && v[10] == ((d >> 8) & 0xff) as u8 && v[11] == (d & 0xff) as u8);
    std::mem::forget(v);
}

// serialise_fixed as a black box (whatever its body looks like): the field is the value cut to the field width and zero padded, and
// exactly `l` octets are appended.  BOUNDED: field width 4 (quick tier; the function is generic in the width) and 16 (chaddr; thorough
// tier), values of every length up to the width + 2 with symbolic octets.  The Verus unit dhcpser proves the same for every width and length, but only for the body
// it was written against; this check also judges a rewritten body.  (Width 16 takes about 7 minutes of CBMC time here; wider fields were not attempted.)
fn check_fixed<const L: usize, const N: usize>() {
    let src: [u8; N] = kani::any();
    let n: usize = kani::any();
    kani::assume(n <= N);
    let p: u8 = kani::any();
    let mut v = vec![p];
    serialise_fixed(&src[..n], L, &mut v);
    assert!(v.len() == 1 + L);
    assert!(v[0] == p);
    let i: usize = kani::any();
    kani::assume(i < L);
    if i < n { assert!(v[1 + i] == src[i]); } else { assert!(v[1 + i] == 0); }
    std::mem::forget(v);
}
#[kani::proof]
#[kani::unwind(20)]
fn fixed_field_16() { check_fixed::<16, 18>(); }
#[kani::proof]
#[kani::unwind(8)]
fn fixed_field_4() { check_fixed::<4, 6>(); }
