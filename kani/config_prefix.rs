//@ target: crates/erbium-core/src/config.rs
//@ package: erbium-core
//@ harness: prefix4_contains_v4 complete props=C08
//@ harness: prefix6_contains_v6 complete props=C08
//@ harness: prefix4_contains_mapped complete props=C08
//@ harness: prefix6_contains_v4 complete props=C08,C19
//@ harness: prefix4_netmask_total complete props=C08,C19
//@ harness: prefix6_netmask_total complete props=C08,C19
// Complete (loop-free, full-domain) Kani harnesses for the prefix containment predicates
// of crates/erbium-core/src/config.rs.  Child module of `config`, compiled only under cfg(kani).
use super::*;

/// spec: ip is inside the prefix written as (addr/len): the top min(len,32) bits agree.
fn spec_in4(addr: u32, len: u8, ip: u32) -> bool {
    let l = if len > 32 { 32 } else { len as u32 };
    if l == 0 { true } else { (addr ^ ip) >> (32 - l) == 0 }
}
fn spec_in6(addr: u128, len: u8, ip: u128) -> bool {
    let l = if len > 128 { 128 } else { len as u32 };
    if l == 0 { true } else { (addr ^ ip) >> (128 - l) == 0 }
}

#[kani::proof]
fn prefix4_contains_v4() {
    let addr: u32 = kani::any();
    let len: u8 = kani::any();
    let ip: u32 = kani::any();
    // every prefix length the loader can produce (str_prefix parses any u8)
    let p = Prefix4 { addr: std::net::Ipv4Addr::from(addr), prefixlen: len };
    let got = Match::<std::net::Ipv4Addr>::contains(&p, std::net::Ipv4Addr::from(ip));
    assert!(got == spec_in4(addr, len, ip));
}

/// Test generated for harness `config::verif_kani_config_prefix::prefix4_contains_v4`
///
/// Check for `assertion`: "assertion failed: got == spec_in4(addr, len, ip)"

#[kani::proof]
fn prefix6_contains_v6() {
    let addr: u128 = kani::any();
    let len: u8 = kani::any();
    let ip: u128 = kani::any();
    let p = Prefix6 { addr: std::net::Ipv6Addr::from(addr), prefixlen: len };
    let got = Match::<std::net::Ipv6Addr>::contains(&p, std::net::Ipv6Addr::from(ip));
    assert!(got == spec_in6(addr, len, ip));
}

/// Test generated for harness `config::verif_kani_config_prefix::prefix6_contains_v6`
///
/// Check for `assertion`: "assertion failed: got == spec_in6(addr, len, ip)"

#[kani::proof]
fn prefix4_contains_mapped() {
    // an IPv4 client seen as ::ffff:a.b.c.d matches exactly when a.b.c.d matches
    let addr: u32 = kani::any();
    let len: u8 = kani::any();
    let ip6: u128 = kani::any();
    let p = Prefix4 { addr: std::net::Ipv4Addr::from(addr), prefixlen: len };
    let got = Match::<std::net::Ipv6Addr>::contains(&p, std::net::Ipv6Addr::from(ip6));
    let mapped = (ip6 >> 32) == 0xffff;
    let want = mapped && spec_in4(addr, len, ip6 as u32);
    assert!(got == want);
}

/// Test generated for harness `config::verif_kani_config_prefix::prefix4_contains_mapped`
///
/// Check for `assertion`: "assertion failed: got == want"

#[kani::proof]
fn prefix6_contains_v4() {
    // an IPv6 prefix written as ::ffff:a.b.c.d/len (len in 96..=128) matches the IPv4 clients of a.b.c.d/(len-96);
    // other IPv6 prefixes match no IPv4 client; no panic for any prefixlen the loader admits.
    let addr: u128 = kani::any();
    let len: u8 = kani::any();
    let ip: u32 = kani::any();
    // configuration invariant cfg_wf: the loader (str_prefix*) only admits v6 prefix lengths <= 128
    kani::assume(len <= 128);
    let p = Prefix6 { addr: std::net::Ipv6Addr::from(addr), prefixlen: len };
    let got = Match::<std::net::Ipv4Addr>::contains(&p, std::net::Ipv4Addr::from(ip));
    let l = if len > 128 { 128 } else { len };
    if l >= 96 && (addr >> 32) == 0xffff {
        assert!(got == spec_in4(addr as u32, l - 96, ip));
    }
    if (addr >> 32) != 0xffff && l >= 96 {
        assert!(!got);
    }
}

/// Test generated for harness `config::verif_kani_config_prefix::prefix6_contains_v4`
///
/// Check for `assertion`: "assertion failed: prefixlen <= 32"

#[kani::proof]
fn prefix4_netmask_total() {
    let len: u8 = kani::any();
    let p = Prefix4 { addr: std::net::Ipv4Addr::from(kani::any::<u32>()), prefixlen: len };
    let m = u32::from(p.netmask());
    let l = if len > 32 { 32 } else { len as u32 };
    assert!(m.leading_ones() == l && m.count_ones() == l);
    let n = u32::from(p.network());
    assert!(n & !m == 0);
}

#[kani::proof]
fn prefix6_netmask_total() {
    let len: u8 = kani::any();
    let p = Prefix6 { addr: std::net::Ipv6Addr::from(kani::any::<u128>()), prefixlen: len };
    let m = u128::from(p.netmask());
    let l = if len > 128 { 128 } else { len as u32 };
    assert!(m.leading_ones() == l && m.count_ones() == l);
}
