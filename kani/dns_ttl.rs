//@ target: crates/erbium-core/src/dns/dnspkt.rs
//@ package: erbium-core
//@ harness: get_expiry_shape_000 bounded(sections=0/0/0) props=C06,C05,C03
//@ harness: get_expiry_shape_100 bounded(sections=1/0/0,ttl=any-u32) props=C06,C05,C03
//@ harness: get_expiry_shape_010 bounded(sections=0/1/0,ttl=any-u32) props=C06,C05,C03
//@ harness: get_expiry_shape_001 bounded(sections=0/0/1,ttl=any-u32) props=C06,C05,C03
//@ harness: get_expiry_shape_111 bounded(sections=1/1/1,ttl=any-u32) props=C06,C05,C03
//@ harness: get_expiry_shape_210 bounded(sections=2/1/0,ttl=any-u32) props=C06,C05,C03
//@ harness: get_expiry_shape_022 bounded(sections=0/2/2,ttl=any-u32) props=C06,C05,C03
//@ harness: edns_get_opt_contract bounded(options<=2,code=any-u16) props=C05
// Bounded stand-ins (iterator-adapter bodies are outside Verus): they back the contracts that unit `cache`
// (DNSPkt::get_expiry) and unit `dnsparse` (EdnsData::get_opt) assume.  Shapes are concrete, TTLs fully symbolic.
use super::*;

fn mk_rr(ttl: u32) -> RR {
    RR { domain: Domain(Vec::new()), class: Class(1), rrtype: Type(1), ttl, rdata: RData::Other(Vec::new()) }
}
fn mk_pkt(a: Vec<RR>, b: Vec<RR>, c: Vec<RR>) -> DNSPkt {
    DNSPkt {
        qid: 0, rd: false, tc: false, aa: false, qr: true, opcode: OPCODE_QUERY, cd: false, ad: false, ra: false,
        rcode: NOERROR, bufsize: 512, edns_ver: None, edns_do: false,
        question: Question { qdomain: Domain(Vec::new()), qclass: CLASS_IN, qtype: Type(1) },
        answer: a, nameserver: b, additional: c, edns: None,
    }
}
fn min2(a: Option<u32>, t: u32) -> Option<u32> { match a { None => Some(t), Some(x) => Some(if t < x { t } else { x }) } }
// lifetime = smallest TTL over all three sections (whole seconds), zero when there is no record
fn check(p: DNSPkt, want: Option<u32>) {
    let e = p.get_expiry();
    assert!(e.subsec_nanos() == 0);
    assert!(e.as_secs() == want.unwrap_or(0) as u64);
    std::mem::forget(p);
}

#[kani::proof]
#[kani::unwind(4)]
fn get_expiry_shape_000() { check(mk_pkt(Vec::new(), Vec::new(), Vec::new()), None); }
#[kani::proof]
#[kani::unwind(4)]
fn get_expiry_shape_100() { let t: u32 = kani::any(); check(mk_pkt(vec![mk_rr(t)], Vec::new(), Vec::new()), Some(t)); }
#[kani::proof]
#[kani::unwind(4)]
fn get_expiry_shape_010() { let t: u32 = kani::any(); check(mk_pkt(Vec::new(), vec![mk_rr(t)], Vec::new()), Some(t)); }
#[kani::proof]
#[kani::unwind(4)]
fn get_expiry_shape_001() { let t: u32 = kani::any(); check(mk_pkt(Vec::new(), Vec::new(), vec![mk_rr(t)]), Some(t)); }
#[kani::proof]
#[kani::unwind(4)]
fn get_expiry_shape_111() {
    let t: [u32; 3] = kani::any();
    check(mk_pkt(vec![mk_rr(t[0])], vec![mk_rr(t[1])], vec![mk_rr(t[2])]), min2(min2(min2(None, t[0]), t[1]), t[2]));
}
#[kani::proof]
#[kani::unwind(4)]
fn get_expiry_shape_210() {
    let t: [u32; 3] = kani::any();
    check(mk_pkt(vec![mk_rr(t[0]), mk_rr(t[1])], vec![mk_rr(t[2])], Vec::new()), min2(min2(min2(None, t[0]), t[1]), t[2]));
}
#[kani::proof]
#[kani::unwind(4)]
fn get_expiry_shape_022() {
    let t: [u32; 4] = kani::any();
    check(mk_pkt(Vec::new(), vec![mk_rr(t[0]), mk_rr(t[1])], vec![mk_rr(t[2]), mk_rr(t[3])]), min2(min2(min2(min2(None, t[0]), t[1]), t[2]), t[3]));
}

#[kani::proof]
#[kani::unwind(4)]
fn edns_get_opt_contract() {
    let c1: u16 = kani::any();
    let c2: u16 = kani::any();
    let want: u16 = kani::any();
    let mut e = EdnsData::new();
    e.set_opt(EdnsOption { code: EdnsCode(c1), data: Vec::new() });
    e.set_opt(EdnsOption { code: EdnsCode(c2), data: Vec::new() });
    match e.get_opt(&EdnsCode(want)) {
        Some(o) => assert!(o.code.0 == want && (c1 == want || c2 == want)),
        None => assert!(c1 != want && c2 != want),
    }
    std::mem::forget(e);
}
