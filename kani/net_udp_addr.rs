//@ target: crates/erbium-net/src/udp.rs
//@ package: erbium-net
//@ harness: udp_in_addr_network_order complete props=C07
use super::*;

#[kani::proof]
#[kani::unwind(6)]
fn udp_in_addr_network_order() {
    let a: [u8; 4] = kani::any();
    let r = std_to_libc_in_addr(net::Ipv4Addr::new(a[0], a[1], a[2], a[3]));
    assert!(r.s_addr.to_ne_bytes() == a);
}
