//@ target: crates/erbium-net/src/lib.rs
//@ package: erbium-net
//@ harness: subnet_netmask_total complete props=C05,C19,C02
//@ harness: subnet_new_contains complete props=C02,C11
// erbium_net::Ipv4Subnet: total for every prefix length a packet (option 121) or a configuration can carry.
use super::*;

#[kani::proof]
fn subnet_netmask_total() {
    let len: u8 = kani::any();
    let s = Ipv4Subnet { addr: std::net::Ipv4Addr::from(kani::any::<u32>()), prefixlen: len };
    let m = u32::from(s.netmask());
    let l = if len > 32 { 32 } else { len as u32 };
    assert!(m.leading_ones() == l && m.count_ones() == l);
    let _ = s.network();
    let _ = s.broadcast();
}

#[kani::proof]
fn subnet_new_contains() {
    let len: u8 = kani::any();
    let addr: u32 = kani::any();
    let ip: u32 = kani::any();
    if let Ok(s) = Ipv4Subnet::new(std::net::Ipv4Addr::from(addr), len) {
        let l = if len > 32 { 32 } else { len as u32 };
        // new() only accepts network addresses (no host bits)
        assert!(l == 32 || addr << l == 0 || l == 0 && addr == 0 || (l > 0 && (addr << l) == 0));
        let inside = if l == 0 { true } else { (addr ^ ip) >> (32 - l) == 0 };
        assert!(s.contains(std::net::Ipv4Addr::from(ip)) == inside);
        let b = u32::from(s.broadcast());
        let n = u32::from(s.network());
        assert!(n == addr);
        assert!(l == 32 && b == addr || l < 32 && b == (addr | (u32::MAX >> l)));
    }
}
