//@ target: crates/erbium-core/src/dns/dnspkt.rs
//@ package: erbium-core
//@ harness: ends_with_black_box bounded props=C15 timeout=600
// Domain::ends_with as a black box (whatever its body and helpers look like): `name` ends with `suffix` iff the last labels of the name
// equal the labels of the suffix, whole label by whole label, where two labels are equal iff they have the same length and their
// octets agree up to ASCII LETTER case (RFC 4343: only A-Z / a-z fold; digits, hyphen, underscore and every other octet compare
// exactly).  BOUNDED: names of 0..=2 labels, suffixes of 0..=2 labels, labels of 1..=2 symbolic octets.  The Verus unit router proves
// the same for every name and suffix, but only for the body it was written against.
use super::*;

fn fold(b: u8) -> u8 { if b >= b'A' && b <= b'Z' { b + 32 } else { b } }
fn label(n: usize, a: u8, b: u8) -> Label { if n == 1 { Label(vec![a]) } else { Label(vec![a, b]) } }
fn label_eq(n1: usize, a1: u8, b1: u8, n2: usize, a2: u8, b2: u8) -> bool { n1 == n2 && fold(a1) == fold(a2) && (n1 == 1 || fold(b1) == fold(b2)) }

#[kani::proof]
#[kani::unwind(4)]
fn ends_with_black_box() {
    // up to two labels each; l*: label length (1 or 2), a*/b*: octets
    let nn: usize = kani::any(); let ns: usize = kani::any();
    kani::assume(nn <= 2 && ns <= 2);
    let (l0, l1, l2, l3): (usize, usize, usize, usize) = (kani::any(), kani::any(), kani::any(), kani::any());
    kani::assume(l0 >= 1 && l0 <= 2 && l1 >= 1 && l1 <= 2 && l2 >= 1 && l2 <= 2 && l3 >= 1 && l3 <= 2);
    let o: [u8; 8] = kani::any();
    let name = Domain(match nn { 0 => vec![], 1 => vec![label(l0, o[0], o[1])], _ => vec![label(l0, o[0], o[1]), label(l1, o[2], o[3])] });
    let suffix = Domain(match ns { 0 => vec![], 1 => vec![label(l2, o[4], o[5])], _ => vec![label(l2, o[4], o[5]), label(l3, o[6], o[7])] });
    let want = if ns > nn { false } else if ns == 0 { true } else if ns == 1 {
        // the last label of the name against the only label of the suffix
        if nn == 1 { label_eq(l0, o[0], o[1], l2, o[4], o[5]) } else { label_eq(l1, o[2], o[3], l2, o[4], o[5]) }
    } else { label_eq(l0, o[0], o[1], l2, o[4], o[5]) && label_eq(l1, o[2], o[3], l3, o[6], o[7]) };
    assert!(name.ends_with(&suffix) == want);
    std::mem::forget(name);
    std::mem::forget(suffix);
}
