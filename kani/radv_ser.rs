//@ target: crates/erbium-core/src/radv/icmppkt.rs
//@ package: erbium-core
//@ harness: ser_scalars complete props=C17
//@ harness: ser_ip6_big_endian complete props=C17
//@ harness: ser_bytes_and_str bounded props=C17
//@ harness: prefix_mask_leading_ones complete props=C17
//@ harness: div_ceil_8 complete props=C17
//@ harness: pref64_tables_inverse complete props=C17
//@ harness: pref64_tables_rfc8781 complete props=C17
// The six SerialiseInto impls of radv/icmppkt.rs (`v.extend(x.to_be_bytes().iter())` one-liners) are assumed in unit raser to
// append exactly the big-endian octets of the value; the std conversions u128 <-> Ipv6Addr are assumed big-endian; mask128 is
// assumed to be "the first n bits".  These harnesses check those assumptions against the real code and the real std.
use super::*;

#[kani::proof]
#[kani::unwind(6)]
fn ser_scalars() {
    let p: u8 = kani::any();
    let a: u8 = kani::any();
    let b: u16 = kani::any();
    let c: u32 = kani::any();
    let mut v = vec![p];
    SerialiseInto::serialise(&a, &mut v);
    SerialiseInto::serialise(&b, &mut v);
    SerialiseInto::serialise(&c, &mut v);
    assert!(v.len() == 8);
    assert!(v[0] == p && v[1] == a);
    assert!(v[2] == (b >> 8) as u8 && v[3] == (b & 0xff) as u8);
    assert!(v[4] == (c >> 24) as u8 && v[5] == ((c >> 16) & 0xff) as u8 && v[6] == ((c >> 8) & 0xff) as u8 && v[7] == (c & 0xff) as u8);
    std::mem::forget(v);
}

#[kani::proof]
#[kani::unwind(18)]
fn ser_ip6_big_endian() {
    let x: u128 = kani::any();
    let ip = std::net::Ipv6Addr::from(x);
    assert!(u128::from(ip) == x);
    let o = ip.octets();
    let i: usize = kani::any();
    kani::assume(i < 16);
    assert!(o[i] == ((x >> (8 * (15 - i))) & 0xff) as u8);
    let mut v: Vec<u8> = Vec::new();
    SerialiseInto::serialise(&&ip, &mut v);
    assert!(v.len() == 16 && v[i] == o[i]);
    std::mem::forget(v);
}

// bounded: slices of 3 octets / a 2-octet string
#[kani::proof]
#[kani::unwind(5)]
fn ser_bytes_and_str() {
    let p: u8 = kani::any();
    let src: Vec<u8> = vec![kani::any(), kani::any(), kani::any()];
    let mut v = vec![p];
    SerialiseInto::serialise(&&src, &mut v);
    assert!(v.len() == 4 && v[0] == p && v[1] == src[0] && v[2] == src[1] && v[3] == src[2]);
    let s = "a.";
    SerialiseInto::serialise(&s, &mut v);
    assert!(v.len() == 6 && v[4] == b'a' && v[5] == b'.');
    std::mem::forget(v);
    std::mem::forget(src);
}

#[kani::proof]
fn prefix_mask_leading_ones() {
    let n: u8 = kani::any();
    let m = prefix_mask(n);
    let l = if n > 128 { 128 } else { n as u32 };
    assert!(m.leading_ones() == l && m.count_ones() == l);
}

#[kani::proof]
fn div_ceil_8() {
    let a: usize = kani::any();
    kani::assume(a <= usize::MAX - 7);
    assert!(a.div_ceil(8) == (a + 7) / 8);
}

#[kani::proof]
fn pref64_tables_inverse() {
    let len: u8 = kani::any();
    match pref64_plc(len) {
        Some(c) => assert!(c <= 5 && pref64_prefixlen(c) == Some(len)),
        None => assert!(len != 96 && len != 64 && len != 56 && len != 48 && len != 40 && len != 32),
    }
    let c: u16 = kani::any();
    match pref64_prefixlen(c) {
        Some(l) => assert!(pref64_plc(l) == Some(c)),
        None => assert!(c > 5),
    }
}

// RFC 8781 section 4, the PLC table itself (body-independent; all 256 lengths and all 65536 codes): 0 = /96, 1 = /64, 2 = /56,
// 3 = /48, 4 = /40, 5 = /32, nothing else.  (Being each other's inverse -- the harness above -- does not pin the table down.)
#[kani::proof]
fn pref64_tables_rfc8781() {
    let len: u8 = kani::any();
    let want = match len { 96 => Some(0u16), 64 => Some(1), 56 => Some(2), 48 => Some(3), 40 => Some(4), 32 => Some(5), _ => None };
    assert!(pref64_plc(len) == want);
    let c: u16 = kani::any();
    let wantl = match c { 0 => Some(96u8), 1 => Some(64), 2 => Some(56), 3 => Some(48), 4 => Some(40), 5 => Some(32), _ => None };
    assert!(pref64_prefixlen(c) == wantl);
}

// (A body-independent harness on the whole serialise_router_advertisement -- one captive-portal option, URL of fixed length 6 / 7 with
// symbolic octets -- was tried and removed: CBMC timed out at 400 s per harness.  The restructured-arm case (seeded change C17-2)
// therefore stays undecided.)
