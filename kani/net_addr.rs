//@ target: crates/erbium-net/src/socket.rs
//@ package: erbium-net
//@ harness: in_addr_network_order complete props=C07
//@ harness: in_addr_roundtrip_local_ip complete props=C07
//@ harness: in6_addr_roundtrip_local_ip complete props=C07
// C07 (narrow clause): the source address placed in the IP_PKTINFO control message is the address the
// query was received on.  Complete over all 2^32 / 2^128 addresses (loop over 4 octets is fixed).
use super::*;

#[kani::proof]
#[kani::unwind(6)]
fn in_addr_network_order() {
    let a: [u8; 4] = kani::any();
    let r = std_to_libc_in_addr(std::net::Ipv4Addr::new(a[0], a[1], a[2], a[3]));
    // struct in_addr.s_addr is in network byte order: its bytes in memory are the octets in order
    assert!(r.s_addr.to_ne_bytes() == a);
}

#[kani::proof]
#[kani::unwind(6)]
fn in_addr_roundtrip_local_ip() {
    let a: [u8; 4] = kani::any();
    let ip = std::net::Ipv4Addr::new(a[0], a[1], a[2], a[3]);
    let rm = RecvMsg {
        buffer: Vec::new(),
        address: None,
        timestamp: None,
        ipv4pktinfo: Some(libc::in_pktinfo { ipi_ifindex: 0, ipi_spec_dst: std_to_libc_in_addr(ip), ipi_addr: std_to_libc_in_addr(ip) }),
        ipv6pktinfo: None,
    };
    assert!(rm.local_ip() == Some(std::net::IpAddr::V4(ip)));
}

#[kani::proof]
#[kani::unwind(18)]
fn in6_addr_roundtrip_local_ip() {
    let a: [u8; 16] = kani::any();
    let ip = std::net::Ipv6Addr::from(a);
    let rm = RecvMsg {
        buffer: Vec::new(),
        address: None,
        timestamp: None,
        ipv4pktinfo: None,
        ipv6pktinfo: Some(libc::in6_pktinfo { ipi6_ifindex: 0, ipi6_addr: std_to_libc_in6_addr(ip) }),
    };
    assert!(rm.local_ip() == Some(std::net::IpAddr::V6(ip)));
}
