//@ target: crates/erbium-net/src/packet.rs
//@ package: erbium-net
//@ harness: finish_netsum_complete complete props=C12
//@ harness: ref_folds_agree validate-spec props=C12
//@ harness: be16_bytes complete props=C12
//@ harness: partial_netsum_bounded bounded(len<=7,bytes=any,current<=0x7fff0000) props=C12 timeout=300
//@ disabled-harness (CBMC does not finish within 3000 s on the Vec/Box frame builders; see DESIGN 11): udp4_frame_valid_len0 bounded(payload=0,addresses/ports/macs=any) props=C12 tier=thorough timeout=3000
//@ disabled-harness (CBMC does not finish within 3000 s on the Vec/Box frame builders; see DESIGN 11): udp4_frame_valid_len1 bounded(payload=1,addresses/ports/macs=any) props=C12 tier=thorough timeout=3000
//@ disabled-harness (CBMC does not finish within 3000 s on the Vec/Box frame builders; see DESIGN 11): udp4_frame_valid_len4 bounded(payload=4,addresses/ports/macs=any) props=C12 tier=thorough timeout=3000
//@ disabled-harness (CBMC does not finish within 3000 s on the Vec/Box frame builders; see DESIGN 11): udp4_frame_valid_len9 bounded(payload=9,addresses/ports/macs=any) props=C12 tier=thorough timeout=3000
// C12 (frame clause): Ethernet/IPv4/UDP frame built around a reply: correct lengths, verifying IPv4 header checksum and UDP
// checksum (RFC 1071 / RFC 768 written independently here), unmodified payload.
use super::*;

// RFC 1071: one's complement sum = sum mod 65535 with 0xFFFF for non-zero multiples
fn ref_fold(sum: u32) -> u16 {
    if sum == 0 { 0 } else { (((sum - 1) % 65535) + 1) as u16 }
}
// end-around-carry form of the same fold (cheaper for the SAT solver than % 65535); equal to ref_fold for sums below 2^32
fn ref_fold_carry(sum: u32) -> u16 {
    let s1 = (sum >> 16) + (sum & 0xFFFF);
    let s2 = (s1 >> 16) + (s1 & 0xFFFF);
    s2 as u16
}
fn ref_words(b: &[u8]) -> u32 {
    let mut s = 0u32;
    let mut i = 0;
    while i + 1 < b.len() { s += ((b[i] as u32) << 8) | b[i + 1] as u32; i += 2; }
    if i < b.len() { s += (b[i] as u32) << 8; }
    s
}

#[kani::proof]
fn ref_folds_agree() {
    // the two reference folds agree except on 0 (0 vs 0) -- complete over u32
    let s: u32 = kani::any();
    assert!(ref_fold_carry(s) == ref_fold(s));
}
#[kani::proof]
#[kani::unwind(4)]
fn finish_netsum_complete() {
    let s: u32 = kani::any();
    assert!(finish_netsum(s) == !ref_fold(s));
}

#[kani::proof]
#[kani::unwind(6)]
fn partial_netsum_bounded() {
    let a: [u8; 7] = kani::any();
    let n: usize = kani::any();
    kani::assume(n <= 7);
    let cur: u32 = kani::any();
    kani::assume(cur <= 0x7fff_0000);
    assert!(partial_netsum(cur, &a[..n]) == cur + ref_words(&a[..n]));
}

fn check_frame<const N: usize>() {
    let payload: [u8; N] = kani::any();
    let sip: [u8; 4] = kani::any();
    let dip: [u8; 4] = kani::any();
    let sport: u16 = kani::any();
    let dport: u16 = kani::any();
    let smac: [u8; 6] = kani::any();
    let dmac: [u8; 6] = kani::any();
    let src = Inet4Addr::new(sip[0], sip[1], sip[2], sip[3], sport);
    let dst = Inet4Addr::new(dip[0], dip[1], dip[2], dip[3], dport);
    let frag = Fragment::new_udp4(src, &smac, dst, &dmac, Tail::Payload(&payload));
    let f = frag.flatten();
    std::mem::forget(frag);
    // Ethernet
    assert!(f.len() == 14 + 20 + 8 + N);
    assert!(f[0..6] == dmac && f[6..12] == smac && f[12] == 0x08 && f[13] == 0x00);
    // IPv4 header: version 4, IHL 5, total length, protocol UDP, addresses, verifying header checksum
    let ip = &f[14..34];
    assert!(ip[0] == 0x45);
    assert!(((ip[2] as usize) << 8 | ip[3] as usize) == 20 + 8 + N);
    assert!(ip[9] == 17);
    assert!(ip[12..16] == sip && ip[16..20] == dip);
    assert!(ref_fold_carry(ref_words(ip)) == 0xFFFF);
    // UDP: ports, length, checksum over the pseudo header, payload unmodified
    let udp = &f[34..];
    assert!(((udp[0] as u16) << 8 | udp[1] as u16) == sport && ((udp[2] as u16) << 8 | udp[3] as u16) == dport);
    assert!(((udp[4] as usize) << 8 | udp[5] as usize) == 8 + N);
    let mut pseudo = 0u32;
    pseudo += ((sip[0] as u32) << 8 | sip[1] as u32) + ((sip[2] as u32) << 8 | sip[3] as u32);
    pseudo += ((dip[0] as u32) << 8 | dip[1] as u32) + ((dip[2] as u32) << 8 | dip[3] as u32);
    pseudo += 17 + (8 + N) as u32;
    assert!(ref_fold_carry(pseudo + ref_words(udp)) == 0xFFFF);
    let mut i = 0;
    while i < N { assert!(udp[8 + i] == payload[i]); i += 1; }
    std::mem::forget(f);
}
#[kani::proof]
#[kani::unwind(46)]
fn udp4_frame_valid_len0() { check_frame::<0>(); }
#[kani::proof]
#[kani::unwind(46)]
fn udp4_frame_valid_len1() { check_frame::<1>(); }
#[kani::proof]
#[kani::unwind(50)]
fn udp4_frame_valid_len4() { check_frame::<4>(); }
#[kani::proof]
#[kani::unwind(56)]
fn udp4_frame_valid_len9() { check_frame::<9>(); }

// u16::to_be_bytes as assumed by the Verus unit frame (verif_u16_be)
#[kani::proof]
fn be16_bytes() {
    let x: u16 = kani::any();
    let b = x.to_be_bytes();
    assert!(b[0] == (x >> 8) as u8 && b[1] == (x & 0xFF) as u8);
}
