// library contract file: DHCP message types of dhcp/dhcppkt.rs (included by dhcpparse.vc, dhcphandlers.vc, dhcpser.vc, policy.vc)
@@ source dp crates/erbium-core/src/dhcp/dhcppkt.rs
@@ include std_net
@@ verus
// abstract view of the option table: code -> concatenated value (RFC 3396: repeated options concatenate)
pub uninterp spec fn opts_view(m: std::collections::HashMap<DhcpOption, Vec<u8>>) -> Map<u8, Seq<u8>>;
pub open spec fn opt_get(m: Map<u8, Seq<u8>>, k: u8) -> Seq<u8> { if m.dom().contains(k) { m[k] } else { Seq::empty() } }

// decoding of the option stream as a spec function over the bytes after the magic cookie.
// fuel-free: recursion on the remaining length.
pub open spec fn dec_opts(s: Seq<u8>, acc: Map<u8, Seq<u8>>) -> Option<Map<u8, Seq<u8>>>
    decreases s.len()
{
    if s.len() == 0 { None }                       // ran off the end without End option
    else if s[0] == 0 { dec_opts(s.skip(1), acc) } // pad
    else if s[0] == 255 { Some(acc) }              // end
    else if s.len() < 2 { None }
    else if s.len() < 2 + s[1] as int { None }
    else { dec_opts(s.skip(2 + s[1] as int), acc.insert(s[0], opt_get(acc, s[0]) + s.subrange(2, 2 + s[1] as int))) }
}

// environment stubs for HashMap<DhcpOption, Vec<u8>> (std HashMap with a user key type; assumed to behave as a map)
#[verifier::external_body]
pub fn verif_opts_new() -> (r: std::collections::HashMap<DhcpOption, Vec<u8>>)
    ensures opts_view(r) == Map::<u8, Seq<u8>>::empty(),
{ unimplemented!() }
// `m.entry(k).or_default().extend(bytes)`
#[verifier::external_body]
pub fn verif_opts_append(m: &mut std::collections::HashMap<DhcpOption, Vec<u8>>, k: DhcpOption, bytes: &[u8])
    ensures opts_view(*final(m)) == opts_view(*old(m)).insert(k.0, opt_get(opts_view(*old(m)), k.0) + bytes@),
{ unimplemented!() }
// `self.other.get(option).map(|x| x.as_slice())`
#[verifier::external_body]
pub fn verif_opts_get<'a>(m: &'a std::collections::HashMap<DhcpOption, Vec<u8>>, k: &DhcpOption) -> (r: Option<&'a [u8]>)
    ensures r is Some <==> opts_view(*m).dom().contains(k.0), r is Some ==> r->Some_0@ == opts_view(*m)[k.0],
{ unimplemented!() }


@@ enum dp ParseError as DhcpParseError
@@ struct dp DhcpOp
@@ struct dp HwType
@@ struct dp MessageType derive(Clone,Copy,PartialEq,Eq,Structural)
@@ struct dp DhcpOption derive(Clone,Copy,PartialEq,Eq,Hash,Structural)
@@ const dp OP_BOOTREQUEST
@@ const dp OP_BOOTREPLY
@@ const dp HWTYPE_ETHERNET
@@ const dp DHCPDISCOVER
@@ const dp DHCPOFFER
@@ const dp DHCPREQUEST
@@ const dp DHCPACK
@@ const dp OPTION_NETMASK
@@ const dp OPTION_BROADCAST
@@ const dp OPTION_HOSTNAME
@@ const dp OPTION_LEASETIME
@@ const dp OPTION_PARAMLIST
@@ const dp OPTION_CLIENTID
@@ const dp OPTION_MSGTYPE
@@ const dp OPTION_SERVERID
@@ const dp OPTION_ADDRESSREQUEST
@@ struct dp DhcpOptions
@@ struct dp Dhcp

@@ subst *
collections::HashMap
=>
std::collections::HashMap
@@ subst * opt
net::Ipv4Addr
=>
std::net::Ipv4Addr
@@ subst * opt
std::std::net::Ipv4Addr
=>
std::net::Ipv4Addr

