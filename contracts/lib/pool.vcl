// library contract file: dhcp/pool.rs (Pool, its SQL stubs and the allocation functions); included by pool.vc and dhcphandlers.vc
@@ source p crates/erbium-core/src/dhcp/pool.rs
@@ include fmt_stub
@@ include time
@@ include std_net

@@ verus
// =================================================================================================
// Abstract lease table: one row per address text (PRIMARY KEY (address)); the SQLite database behind
// rusqlite is outside any verifier: every statement is replaced (R7) by a stub with an ASSUMED contract
// over this view; engine B checks each contract against the real statement on real SQLite (bounded).
pub struct Row { pub client: Seq<u8>, pub start: u32, pub expiry: u32 }
pub type Table = Map<Seq<char>, Row>;
#[verifier::external_body]
pub struct Conn { _p: u8 }
pub uninterp spec fn conn_view(c: Conn) -> Table;
// the pool: connection + (ghost) the wall clock as read by this process, monotone
pub struct Pool { pub conn: Conn, pub clock: Ghost<int> }
impl Pool {
    pub open spec fn view(&self) -> Table { conn_view(self.conn) }
}
pub open spec fn CLOCK_MAX() -> int { 0xF000_0000 }

// address <-> text (std Display / FromStr of Ipv4Addr, assumed inverse on the canonical form)
pub uninterp spec fn ip_str(ip: std::net::Ipv4Addr) -> Seq<char>;
#[verifier::external_body]
pub broadcast proof fn axiom_ip_str_injective(a: std::net::Ipv4Addr, b: std::net::Ipv4Addr)
    requires #[trigger] ip_str(a) == #[trigger] ip_str(b),
    ensures a == b,
{}
#[verifier::external_body]
pub broadcast proof fn axiom_ip_str_nonempty(a: std::net::Ipv4Addr)
    ensures (#[trigger] ip_str(a)).len() > 0,
{}
#[verifier::external_body]
pub fn verif_ip_to_string(ip: &std::net::Ipv4Addr) -> (r: String) ensures r@ == ip_str(*ip), { unimplemented!() }
// `requested.map(|ip| ip.to_string()).unwrap_or_else(|| "".into())`
#[verifier::external_body]
pub fn verif_req_string(requested: Option<std::net::Ipv4Addr>) -> (r: String)
    ensures requested is Some ==> r@ == ip_str(requested->Some_0), requested is None ==> r@.len() == 0,
{ unimplemented!() }
pub struct AddrParseErr { pub _p: u8 }
// `s.parse::<std::net::Ipv4Addr>()`
#[verifier::external_body]
pub fn verif_parse_ip(s: &String) -> (r: Result<std::net::Ipv4Addr, AddrParseErr>)
    ensures (r is Ok) == (verif_parse_ip_spec(s@) is Some), r is Ok ==> r->Ok_0 == verif_parse_ip_spec(s@)->Some_0,
{ unimplemented!() }
// FromStr for Ipv4Addr as a function of the text; inverse of Display on canonical text (assumed)
pub uninterp spec fn verif_parse_ip_spec(s: Seq<char>) -> Option<std::net::Ipv4Addr>;
#[verifier::external_body]
pub broadcast proof fn axiom_parse_ip(s: Seq<char>)
    ensures (#[trigger] verif_parse_ip_spec(s)) is Some ==> ip_str(verif_parse_ip_spec(s)->Some_0) == s,
{}
#[verifier::external_body]
pub broadcast proof fn axiom_parse_ip_total(x: std::net::Ipv4Addr)
    ensures verif_parse_ip_spec(#[trigger] ip_str(x)) == Some(x),
{}

pub broadcast group group_ip_text { axiom_ip_str_injective, axiom_ip_str_nonempty, axiom_parse_ip, axiom_parse_ip_total }

// configured address set (std HashSet<Ipv4Addr>)
#[verifier::external_body]
pub struct PoolAddresses { _p: u8 }
pub uninterp spec fn addrs_view(a: PoolAddresses) -> Set<std::net::Ipv4Addr>;
impl PoolAddresses {
    #[verifier::external_body]
    pub fn contains(&self, ip: &std::net::Ipv4Addr) -> (r: bool) ensures r == addrs_view(*self).contains(*ip), { unimplemented!() }
}
// consistent-hash ordering of the pool (iterator chains + sort): only "a permutation of the pool" matters
#[verifier::external_body]
pub fn verif_hash_order<'a>(addresses: &'a PoolAddresses, clientid: &[u8]) -> (r: Vec<&'a std::net::Ipv4Addr>)
    ensures
        forall|i: int| 0 <= i < r@.len() ==> addrs_view(*addresses).contains(*(#[trigger] r@[i])),
        forall|x: std::net::Ipv4Addr| addrs_view(*addresses).contains(x) ==> exists|i: int| 0 <= i < r@.len() && *(#[trigger] r@[i]) == x,
{ unimplemented!() }

#[verifier::external_body]
pub fn verif_dur_max(a: Duration, b: Duration) -> (r: Duration) ensures dur_ns(r) == (if dur_ns(a) >= dur_ns(b) { dur_ns(a) } else { dur_ns(b) }), { unimplemented!() }
#[verifier::external_body]
pub fn verif_dur_min(a: Duration, b: Duration) -> (r: Duration) ensures dur_ns(r) == (if dur_ns(a) <= dur_ns(b) { dur_ns(a) } else { dur_ns(b) }), { unimplemented!() }

// ---- vocabulary ----
pub open spec fn live_own(t: Table, a: Seq<char>, c: Seq<u8>, ts: int) -> bool { t.contains_key(a) && t[a].client == c && t[a].expiry > ts }
pub open spec fn own(t: Table, a: Seq<char>, c: Seq<u8>) -> bool { t.contains_key(a) && t[a].client == c }
pub open spec fn in_use(t: Table, a: Seq<char>, ts: int) -> bool { t.contains_key(a) && t[a].expiry >= ts }
// table invariant established by every write of this code (start <= expiry); a database imported from elsewhere need not satisfy it
pub open spec fn tbl_wf(t: Table) -> bool { forall|a: Seq<char>| t.contains_key(a) ==> (#[trigger] t[a]).start <= t[a].expiry }

impl Pool {
    // the wall clock (std::time::SystemTime::now() since the epoch, in seconds): monotone, within CLOCK_MAX (assumed)
    #[verifier::external_body]
    pub fn verif_now(&mut self) -> (r: u64)
        ensures r as int == final(self).clock@, final(self).clock@ >= old(self).clock@, final(self).conn == old(self).conn, 0 < r < CLOCK_MAX(),
    { unimplemented!() }

    // SQL #1 (select_requested_address, select_new_address): SELECT true FROM leases WHERE expiry >= ?1 AND address = ?2
    #[verifier::external_body]
    pub fn sql_in_use(&self, ts: u32, addr: String) -> (r: Result<Option<Option<()>>, Error>)
        ensures r is Ok ==> (r->Ok_0 is Some <==> in_use(self.view(), addr@, ts as int)),
            r is Err ==> r->Err_0 is DbError,
    { unimplemented!() }

    // SQL (select_address step 1): all unexpired rows of the client, the requested address first, then by latest expiry
    #[verifier::external_body]
    pub fn sql_live_own_all(&self, clientid: &[u8], ts: u32, req: String) -> (r: Result<Vec<(String, u32, u32)>, Error>)
        ensures
            r is Ok ==> {
                let rows = r->Ok_0@;
                // every returned row is an unexpired row of the client, with its expiry and start
                &&& forall|k: int| 0 <= k < rows.len() ==> live_own(self.view(), (#[trigger] rows[k]).0@, clientid@, ts as int)
                        && self.view()[rows[k].0@].expiry == rows[k].1 && self.view()[rows[k].0@].start == rows[k].2
                // complete: every unexpired row of the client is returned
                &&& forall|a: Seq<char>| live_own(self.view(), a, clientid@, ts as int) ==> exists|k: int| 0 <= k < rows.len() && (#[trigger] rows[k]).0@ == a
                // the requested address, if the client holds it, comes first
                &&& (live_own(self.view(), req@, clientid@, ts as int) ==> rows.len() > 0 && rows[0].0@ == req@)
            },
            r is Err ==> r->Err_0 is DbError,
    { unimplemented!() }

    // SQL (select_address step 2): any row of the client (expired or not), requested address first, then latest expiry
    #[verifier::external_body]
    pub fn sql_any_own(&self, clientid: &[u8], req: String) -> (r: Result<Option<(String, u32, u32)>, Error>)
        ensures
            r is Ok && r->Ok_0 is Some ==> {
                let row = r->Ok_0->Some_0;
                &&& own(self.view(), row.0@, clientid@)
                &&& self.view()[row.0@].start == row.1 && self.view()[row.0@].expiry == row.2
                &&& (own(self.view(), req@, clientid@) ==> row.0@ == req@)
            },
            r is Ok && r->Ok_0 is None ==> forall|a: Seq<char>| !own(self.view(), a, clientid@),
            r is Err ==> r->Err_0 is DbError,
    { unimplemented!() }

    // SQL (allocate_address): INSERT OR REPLACE INTO leases (address, clientid, start, expiry, options): one row per address
    #[verifier::external_body]
    pub fn sql_upsert(&mut self, addr: String, clientid: &[u8], start: u32, expiry: u32, options: &[u8]) -> (r: Result<usize, SqlErr>)
        ensures
            final(self).clock == old(self).clock,
            r is Ok ==> final(self).view() == old(self).view().insert(addr@, Row { client: clientid@, start: start, expiry: expiry }),
            r is Err ==> final(self).view() == old(self).view(),
    { unimplemented!() }
}
pub struct SqlErr { pub _p: u8 }

@@ enum p LeaseType
@@ struct p Lease
@@ enum p Error
@@ subst Lease
std::time::Duration
=>
Duration
@@ end

@@ impl p Pool : select_requested_address select_new_address select_address allocate_address

@@ sql Pool::select_requested_address 1 sql_in_use 
@@ sql Pool::select_new_address 1 sql_in_use
@@ sql Pool::select_address 1 sql_live_own_all
@@ sql Pool::select_address 2 sql_any_own
@@ sql Pool::allocate_address 1 sql_upsert

@@ subst *
std::time::Duration
=>
Duration
@@ subst Pool::select_requested_address
requested.to_string()
=>
verif_ip_to_string(&requested)
@@ subst Pool::select_new_address
        let clienthash = calculate_hash(&0, &clientid);
        let mut addresses = addresses
            .iter()
            .map(|ip| (calculate_hash(&clienthash, ip), ip))
            .collect::<Vec<_>>();
        addresses.sort_unstable();
        let addresses = addresses
            .iter()
            .map(|(_dist, ip)| ip)
            .copied()
            .collect::<Vec<_>>();
=>
        let verif_sorted = verif_hash_order(addresses, clientid);
@@ subst Pool::select_new_address
        for i in addresses {
=>
        for i in verif_sorted {
@@ subst Pool::select_new_address
i.to_string()
=>
verif_ip_to_string(i)
@@ subst Pool::select_address
        let ts = std::time::SystemTime::now()
            .duration_since(std::time::SystemTime::UNIX_EPOCH)
            .expect("clock failure")
            .as_secs();
=>
        let ts = self.verif_now();
@@ subst Pool::allocate_address
        let ts = std::time::SystemTime::now()
            .duration_since(std::time::SystemTime::UNIX_EPOCH)
            .expect("clock failure")
            .as_secs();
=>
        let ts = self.verif_now();
@@ subst Pool::select_address
requested
                        .map(|ip| ip.to_string())
                        .unwrap_or_else(|| "".into())
=>
verif_req_string(requested)
@@ subst Pool::select_address
lease.0.parse::<std::net::Ipv4Addr>()
=>
verif_parse_ip(&lease.0)
@@ subst Pool::select_address
expiry.into()
=>
expiry as u64
@@ subst Pool::allocate_address opt
std::cmp::min(
=>
verif_dur_min(
@@ subst Pool::allocate_address opt
std::cmp::max(
=>
verif_dur_max(
@@ subst Pool::allocate_address
lease.ip.to_string()
=>
verif_ip_to_string(&lease.ip)
@@ end

// ------------------------------------------------------------------------------------------------
// C01/C02/C09 step 3
@@ spec Pool::select_requested_address
ensures
    *final(self) == *old(self),
    ret is Err ==> ret->Err_0 is NoAssignableAddress || ret->Err_0 is RequestedAddressInUse || ret->Err_0 is DbError,
    ret is Ok ==> ret->Ok_0.ip == requested && addrs_view(*addresses).contains(requested) && !in_use(old(self).view(), ip_str(requested), ts as int),
    ret is Err && ret->Err_0 is NoAssignableAddress ==> !addrs_view(*addresses).contains(requested),
    ret is Err && ret->Err_0 is RequestedAddressInUse ==> in_use(old(self).view(), ip_str(requested), ts as int),

// step 4
@@ spec Pool::select_new_address
ensures
    *final(self) == *old(self),
    ret is Err ==> ret->Err_0 is NoAssignableAddress || ret->Err_0 is DbError,
    ret is Ok ==> addrs_view(*addresses).contains(ret->Ok_0.ip),
    ret is Ok ==> !in_use(old(self).view(), ip_str(ret->Ok_0.ip), ts as int),
    // refused only on exhaustion: every address of the pool has an unexpired row
    ret is Err && ret->Err_0 is NoAssignableAddress ==> forall|x: std::net::Ipv4Addr| addrs_view(*addresses).contains(x) ==> in_use(old(self).view(), #[trigger] ip_str(x), ts as int),
@@ hint Pool::select_new_address before "let verif_sorted = verif_hash_order(addresses, clientid);"
let ghost pool_set = addrs_view(*addresses);
@@ loop Pool::select_new_address 1
invariant
    *self == *old(self),
    verif_it.seq() == verif_sorted@, pool_set == addrs_view(*addresses),
    forall|k: int| 0 <= k < verif_sorted@.len() ==> pool_set.contains(*(#[trigger] verif_sorted@[k])),
    forall|x: std::net::Ipv4Addr| pool_set.contains(x) ==> exists|i: int| 0 <= i < verif_sorted@.len() && *(#[trigger] verif_sorted@[i]) == x,
    forall|k: int| 0 <= k < verif_it.index@ ==> in_use(self.view(), ip_str(*(#[trigger] verif_sorted@[k])), ts as int),


@@ verus
// the addresses of pool A on which client c holds an unexpired lease at time ts (C09)
pub open spec fn holds(t: Table, x: std::net::Ipv4Addr, c: Seq<u8>, ts: int) -> bool { live_own(t, ip_str(x), c, ts) }
pub open spec fn held_in_pool(t: Table, a: Set<std::net::Ipv4Addr>, x: std::net::Ipv4Addr, c: Seq<u8>, ts: int) -> bool { a.contains(x) && holds(t, x, c, ts) }
pub open spec fn single_live(t: Table, c: Seq<u8>, ts: int) -> bool { forall|a: Seq<char>, b: Seq<char>| live_own(t, a, c, ts) && live_own(t, b, c, ts) ==> a == b }
pub open spec fn c09_ok(t: Table, a: Set<std::net::Ipv4Addr>, requested: Option<std::net::Ipv4Addr>, c: Seq<u8>, ip: std::net::Ipv4Addr, ts: int) -> bool {
    &&& forall|x: std::net::Ipv4Addr| #[trigger] held_in_pool(t, a, x, c, ts) ==> held_in_pool(t, a, ip, c, ts)
    &&& (requested is Some && held_in_pool(t, a, requested->Some_0, c, ts) ==> ip == requested->Some_0)
}
pub open spec fn exhausted(t: Table, a: Set<std::net::Ipv4Addr>, ts: int) -> bool { forall|x: std::net::Ipv4Addr| a.contains(x) ==> in_use(t, #[trigger] ip_str(x), ts) }
// another client's unexpired row on address text k
pub open spec fn foreign_in_use(t: Table, k: Seq<char>, c: Seq<u8>, ts: int) -> bool { t.contains_key(k) && t[k].client != c && t[k].expiry >= ts }

@@ spec Pool::select_address
requires tbl_wf(old(self).view()),
ensures
    final(self).conn == old(self).conn, final(self).clock@ >= old(self).clock@, 0 < final(self).clock@ < CLOCK_MAX(),
    ret is Err ==> ret->Err_0 is NoAssignableAddress || ret->Err_0 is DbError,
    // C02: only addresses of the configured set
    ret is Ok ==> addrs_view(*addresses).contains(ret->Ok_0.ip),
    // C01: never an address on which another client has an unexpired row
    ret is Ok ==> !foreign_in_use(old(self).view(), ip_str(ret->Ok_0.ip), clientid@, final(self).clock@),
    // C09: refused only on exhaustion
    ret is Err && ret->Err_0 is NoAssignableAddress ==>
        forall|x: std::net::Ipv4Addr| addrs_view(*addresses).contains(x) ==> in_use(old(self).view(), #[trigger] ip_str(x), final(self).clock@),
    // C09 (single binding: the client has at most one unexpired row): it keeps that address
    ret is Ok && single_live(old(self).view(), clientid@, final(self).clock@) ==>
        forall|x: std::net::Ipv4Addr| #[trigger] held_in_pool(old(self).view(), addrs_view(*addresses), x, clientid@, final(self).clock@) ==> ret->Ok_0.ip == x,
    // C09 (general: any number of unexpired rows, e.g. after the pool changed): keeps an address it holds in the pool,
    // the one it names if it names one it holds
    ret is Ok ==> forall|x: std::net::Ipv4Addr| #[trigger] held_in_pool(old(self).view(), addrs_view(*addresses), x, clientid@, final(self).clock@) ==>
        held_in_pool(old(self).view(), addrs_view(*addresses), ret->Ok_0.ip, clientid@, final(self).clock@),
    ret is Ok && requested is Some && held_in_pool(old(self).view(), addrs_view(*addresses), requested->Some_0, clientid@, final(self).clock@)
        ==> ret->Ok_0.ip == requested->Some_0,
    // (the same three clauses, packaged for allocate_address)
    ret is Ok ==> c09_ok(old(self).view(), addrs_view(*addresses), requested, clientid@, ret->Ok_0.ip, final(self).clock@),
    ret is Err && ret->Err_0 is NoAssignableAddress ==> exhausted(old(self).view(), addrs_view(*addresses), final(self).clock@),


@@ spec Pool::allocate_address
requires tbl_wf(old(self).view()), dur_ns(max_expire_time) as int / NS() <= 0x0FFF_FFFF,
ensures
    final(self).clock@ >= old(self).clock@, 0 < final(self).clock@ < CLOCK_MAX(),
    // C13/C18: an error leaves every stored lease exactly as it was
    ret is Err ==> final(self).view() == old(self).view(),
    // C02
    ret is Ok ==> addrs_view(*addresses).contains(ret->Ok_0.ip),
    // C10: duration within [min,max]; the record covers the advertised time exactly
    ret is Ok && dur_ns(min_expire_time) <= dur_ns(max_expire_time) ==> dur_ns(min_expire_time) <= dur_ns(ret->Ok_0.expire) <= dur_ns(max_expire_time),
    // C01/C13/C18: exactly one row written, that of the assigned address, for this client, [now, now + L]
    ret is Ok ==> final(self).view() == old(self).view().insert(ip_str(ret->Ok_0.ip),
        Row { client: clientid@, start: final(self).clock@ as u32, expiry: (final(self).clock@ + dur_ns(ret->Ok_0.expire) as int / NS()) as u32 }),
    ret is Ok ==> final(self).clock@ + dur_ns(ret->Ok_0.expire) as int / NS() < 0x1_0000_0000,
    // C01: the address was not held (unexpired) by anybody else
    ret is Ok ==> !foreign_in_use(old(self).view(), ip_str(ret->Ok_0.ip), clientid@, final(self).clock@),
    tbl_wf(final(self).view()),
    // C09, at some clock reading t taken while the request was being processed:
    // a client holding an address of the pool keeps one it holds -- the one it names, if it names one it holds;
    // refused for lack of addresses only when every address of the pool is in use
    ret is Ok ==> exists|t: int| old(self).clock@ <= t <= final(self).clock@ && #[trigger] c09_ok(old(self).view(), addrs_view(*addresses), requested, clientid@, ret->Ok_0.ip, t),
    ret is Err && ret->Err_0 is NoAssignableAddress ==> exists|t: int| old(self).clock@ <= t <= final(self).clock@ && #[trigger] exhausted(old(self).view(), addrs_view(*addresses), t),

@@ closure Pool::allocate_address ".map_err("
|e: SqlErr| -> (r: Error) ensures r is DbError
@@ loop Pool::select_address 1
invariant
    self.conn == old(self).conn, self.clock@ == ts as int, 0 < ts < CLOCK_MAX(), tbl_wf(self.view()), self.clock@ >= old(self).clock@,
    verif_it.seq() == live_leases@,
    forall|k: int| 0 <= k < live_leases@.len() ==> live_own(self.view(), (#[trigger] live_leases@[k]).0@, clientid@, ts as int)
        && self.view()[live_leases@[k].0@].expiry == live_leases@[k].1 && self.view()[live_leases@[k].0@].start == live_leases@[k].2,
    forall|a: Seq<char>| live_own(self.view(), a, clientid@, ts as int) ==> exists|k: int| 0 <= k < live_leases@.len() && (#[trigger] live_leases@[k]).0@ == a,
    requested is Some && live_own(self.view(), ip_str(requested->Some_0), clientid@, ts as int) ==> live_leases@.len() > 0 && live_leases@[0].0@ == ip_str(requested->Some_0),
    // none of the rows seen so far is an address of the pool
    forall|k: int, x: std::net::Ipv4Addr| 0 <= k < verif_it.index@ && #[trigger] ip_str(x) == (#[trigger] live_leases@[k]).0@ ==> !addrs_view(*addresses).contains(x),
@@ hint Pool::select_address before "if let Ok(ip) = verif_parse_ip(&lease.0) {" #1
broadcast use group_ip_text;
let ghost kk = verif_it.index@ as int;
assert(lease == live_leases@[kk]);
let ghost parsed = verif_parse_ip_spec(lease.0@);
@@ hint Pool::select_address after "lease_type: LeaseType::ReusingLease," +3
proof {
    assert forall|x: std::net::Ipv4Addr| #[trigger] ip_str(x) == live_leases@[kk].0@ implies !addrs_view(*addresses).contains(x) by {
        axiom_parse_ip_total(x);
        assert(parsed == Some(x));
    }
}
@@ hint Pool::select_address before "let ts = self.verif_now();"
broadcast use group_ip_text;
