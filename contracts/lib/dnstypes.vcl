// library contract file: DNS message types of dns/dnspkt.rs (included by dnsparse.vc, dnsser.vc, dnsreply.vc, cache.vc, router.vc)
@@ source pkt crates/erbium-core/src/dns/dnspkt.rs
@@ struct pkt Class derive(Clone,Copy,PartialEq,Eq,Structural)
@@ const pkt CLASS_IN
@@ struct pkt Type derive(Clone,Copy,PartialEq,Eq,Hash,Structural)
@@ const pkt RR_A
@@ const pkt RR_NS
@@ const pkt RR_CNAME
@@ const pkt RR_SOA
@@ const pkt RR_PTR
@@ const pkt RR_MX
@@ const pkt RR_RP
@@ const pkt RR_AFSDB
@@ const pkt RR_RT
@@ const pkt RR_NAPTR
@@ const pkt RR_OPT
@@ struct pkt RCode derive(Clone,Copy,PartialEq,Eq,Structural)
@@ struct pkt Opcode derive(Clone,Copy,PartialEq,Eq,Structural)
@@ const pkt OPCODE_QUERY
@@ const pkt NOERROR
@@ const pkt REFUSED
@@ const pkt SERVFAIL
@@ const pkt NXDOMAIN
@@ struct pkt Label derive(PartialEq,Eq,Hash) clone
@@ struct pkt Domain derive(PartialEq,Eq,Hash) clone
@@ struct pkt Question clone
@@ struct pkt EdnsCode derive(PartialEq,Eq,Structural) clone
@@ const pkt EDNS_NSID
@@ const pkt EDNS_COOKIE
@@ const pkt EDNS_EDE
@@ struct pkt EdeCode derive(Clone,Copy,PartialEq,Eq,Structural)
@@ struct pkt EdnsOption clone
@@ struct pkt EdnsData clone
@@ struct pkt SoaData clone
@@ struct pkt PrefDomainData clone
@@ struct pkt AFSDBData clone
@@ struct pkt RPData clone
@@ struct pkt NAPTRData clone
@@ enum pkt RData clone
@@ struct pkt RR clone
@@ struct pkt DNSPkt clone


@@ verus
// ---- well-formedness of decoded DNS data: what the decoder establishes and the encoder relies on ----
pub open spec fn label_wf(l: Label) -> bool { 1 <= l.0@.len() <= 63 }
// octets the labels take on the wire, one length octet each (the root octet is counted separately)
pub open spec fn labels_len(s: Seq<Label>) -> int decreases s.len() {
    if s.len() == 0 { 0 } else { labels_len(s.drop_last()) + 1 + s.last().0@.len() }
}
// RFC 1035 2.3.4: labels are 1..=63 octets and the whole name, root octet included, at most 255
pub open spec fn domain_wf(d: Domain) -> bool {
    &&& forall|i: int| 0 <= i < d.0@.len() ==> label_wf(#[trigger] d.0@[i])
    &&& labels_len(d.0@) + 1 <= 255
}
pub proof fn lemma_labels_len_push(s: Seq<Label>, l: Label)
    ensures labels_len(s.push(l)) == labels_len(s) + 1 + l.0@.len()
{ assert(s.push(l).drop_last() =~= s); }
pub proof fn lemma_labels_len_nonneg(s: Seq<Label>)
    ensures labels_len(s) >= 0
    decreases s.len()
{ if s.len() > 0 { lemma_labels_len_nonneg(s.drop_last()); } }
pub open spec fn rdata_wf(t: Type, r: RData) -> bool {
    match r {
        RData::CName(d) => domain_wf(d),
        RData::Ns(d) => domain_wf(d),
        RData::Ptr(d) => domain_wf(d),
        RData::Mx(pd) => domain_wf(pd.domain),
        RData::Rt(pd) => domain_wf(pd.domain),
        RData::AfsDb(a) => domain_wf(a.hostname),
        RData::Rp(rp) => domain_wf(rp.mbox) && domain_wf(rp.txt),
        RData::NaPtr(na) => domain_wf(na.replacement) && na.flags@.len() <= 255 && na.services@.len() <= 255 && na.regexp@.len() <= 255,
        RData::Soa(s) => t == RR_SOA && domain_wf(s.mname) && domain_wf(s.rname),
        RData::Opt(o) => t == RR_OPT,
        RData::Other(x) => t != RR_OPT && t != RR_SOA && x@.len() <= 65535,
    }
}
// the OPT pseudo-record always carries Opt data (get_dns relies on it: `_ => panic!("opt record does not contain opt data")`)
pub open spec fn rr_wf(rr: RR) -> bool {
    &&& domain_wf(rr.domain)
    &&& rdata_wf(rr.rrtype, rr.rdata)
    &&& ((rr.rrtype == RR_OPT) ==> (rr.rdata is Opt))
}
pub open spec fn rrs_wf(s: Seq<RR>) -> bool { forall|i: int| 0 <= i < s.len() ==> rr_wf(#[trigger] s[i]) }
pub open spec fn pkt_wf(p: DNSPkt) -> bool {
    &&& p.rcode.0 <= 0xFFF
    &&& domain_wf(p.question.qdomain)
    &&& rrs_wf(p.answer@) && rrs_wf(p.nameserver@) && rrs_wf(p.additional@)
}
// section sizes fit the 16-bit header counts (one slot is kept for the OPT record the encoder appends)
pub open spec fn sections_fit(p: DNSPkt) -> bool { p.answer@.len() <= 65535 && p.nameserver@.len() <= 65535 && p.additional@.len() < 65535 }
// a message the encoder accepts: what the decoder produces from any message of at most 65536 octets (unit dnsparse)
pub open spec fn reply_wf(p: DNSPkt) -> bool { pkt_wf(p) && sections_fit(p) }
// record data kept as opaque octets: every type the decoder has no structured form for
pub open spec fn opaque_type(t: Type) -> bool {
    t != RR_CNAME && t != RR_NS && t != RR_PTR && t != RR_AFSDB && t != RR_RP && t != RR_RT && t != RR_MX && t != RR_NAPTR && t != RR_OPT && t != RR_SOA
}
// the fixed part of a record as the decoder reads it at o1 (first octet after the owner name); `end` = cursor after the record
pub open spec fn rr_decoded_at(b: Seq<u8>, o1: int, rr: RR, end: int) -> bool {
    &&& 0 <= o1 && o1 + 10 <= b.len()
    &&& rr.rrtype.0 as int == (b[o1] as int * 256 + b[o1 + 1] as int) && rr.class.0 as int == (b[o1 + 2] as int * 256 + b[o1 + 3] as int)
    &&& rr.ttl as int == b[o1 + 4] as int * 16777216 + b[o1 + 5] as int * 65536 + b[o1 + 6] as int * 256 + b[o1 + 7] as int
    &&& ((rr.rdata is Other) <==> opaque_type(rr.rrtype))
    &&& (rr.rdata is Other ==> end == o1 + 10 + (b[o1 + 8] as int * 256 + b[o1 + 9] as int) && end <= b.len() && rr.rdata->Other_0@ == b.subrange(o1 + 10, end))
}
// RFC 6891 6.1.2: one EDNS option on the wire = OPTION-CODE, OPTION-LENGTH (both big-endian 16 bit), OPTION-DATA
pub open spec fn enc_opt1(o: EdnsOption) -> Seq<u8> {
    seq![(o.code.0 >> 8) as u8, (o.code.0 & 0xFF) as u8, ((o.data@.len() as u16) >> 8) as u8, ((o.data@.len() as u16) & 0xFF) as u8] + o.data@
}
pub open spec fn enc_opts(s: Seq<EdnsOption>, n: int) -> Seq<u8> decreases n { if n <= 0 { Seq::empty() } else { enc_opts(s, n - 1) + enc_opt1(s[n - 1]) } }
