// library contract file: pktparser::Buffer (included by pktbuf.vc, dhcpparse.vc, icmp.vc)
@@ source pp crates/erbium-core/src/pktparser/mod.rs
@@ include std_vec
@@ include be_bytes
@@ include std_net
@@ include fmt_stub

@@ verus
// cursor invariant of pktparser::Buffer
pub open spec fn buf_wf(b: Buffer) -> bool { b.offset <= b.buffer@.len() }
pub open spec fn buf_rem(b: Buffer) -> int { b.buffer@.len() - b.offset }

#[verifier::external_body]
pub fn verif_lossy_string(b: &[u8]) -> (r: String)
{ unimplemented!() }

@@ enum pp ParseError
@@ struct pp Buffer
@@ impl pp Buffer : new remaining size empty get_u8 peek_u8 get_bytes get_buffer get_vec get_be16 get_be32 get_ipv4 get_tlv get_label get_domain get_domains

@@ subst * opt
pktparser::
=>

@@ subst Buffer::get_domain
String::from_utf8_lossy(l).to_string()
=>
verif_lossy_string(l)

@@ subst * opt
std::mem::size_of::<u16>()
=>
2
@@ subst * opt
std::mem::size_of::<u32>()
=>
4
@@ subst * opt
std::mem::size_of::<[u8; 4]>()
=>
4

@@ spec Buffer::new
ensures ret.buffer@ == buffer@, ret.offset == 0, buf_wf(ret),
@@ spec Buffer::remaining
requires buf_wf(*self),
ensures ret == buf_rem(*self), ret <= usize::MAX / 2,
@@ hint Buffer::remaining before "self.buffer.len() - self.offset"
proof { axiom_slice_len_u8(self.buffer); }
@@ spec Buffer::size
ensures ret == self.buffer@.len(),
@@ spec Buffer::empty
requires buf_wf(*self),
ensures ret == (buf_rem(*self) == 0),

@@ spec Buffer::get_u8
requires buf_wf(*old(self)),
ensures
    buf_wf(*final(self)), final(self).buffer@ == old(self).buffer@,
    ret is Some <==> buf_rem(*old(self)) > 0,
    ret is Some ==> ret->Some_0 == old(self).buffer@[old(self).offset as int] && final(self).offset == old(self).offset + 1,
    ret is None ==> final(self).offset == old(self).offset,
@@ hint Buffer::get_u8 before "let ret = self.buffer[self.offset];"
proof { axiom_slice_len_u8(self.buffer); }

@@ spec Buffer::peek_u8
requires buf_wf(*self),
ensures ret is Some <==> buf_rem(*self) > 0, ret is Some ==> ret->Some_0 == self.buffer@[self.offset as int],

@@ spec Buffer::get_bytes
requires buf_wf(*old(self)), b <= usize::MAX / 2,
ensures
    buf_wf(*final(self)), final(self).buffer@ == old(self).buffer@,
    ret is Some <==> b <= buf_rem(*old(self)),
    ret is Some ==> ret->Some_0@ == old(self).buffer@.subrange(old(self).offset as int, old(self).offset + b) && final(self).offset == old(self).offset + b,
    ret is None ==> final(self).offset == old(self).offset,
@@ hint Buffer::get_bytes before "if self.offset + b <= self.buffer.len() {"
proof { axiom_slice_len_u8(self.buffer); }

@@ spec Buffer::get_buffer
requires buf_wf(*old(self)), b <= usize::MAX / 2,
ensures
    buf_wf(*final(self)), final(self).buffer@ == old(self).buffer@,
    ret is Some <==> b <= buf_rem(*old(self)),
    ret is Some ==> buf_wf(ret->Some_0) && ret->Some_0.offset == 0 && ret->Some_0.buffer@.len() == b && final(self).offset == old(self).offset + b,
    ret is None ==> final(self).offset == old(self).offset,
@@ hint Buffer::get_buffer before "if self.offset + b <= self.buffer.len() {"
proof { axiom_slice_len_u8(self.buffer); }

@@ spec Buffer::get_vec
requires buf_wf(*old(self)), b <= usize::MAX / 2,
ensures
    buf_wf(*final(self)), final(self).buffer@ == old(self).buffer@,
    ret is Some <==> b <= buf_rem(*old(self)),
    ret is Some ==> ret->Some_0@.len() == b && ret->Some_0@ == old(self).buffer@.subrange(old(self).offset as int, old(self).offset + b) && final(self).offset == old(self).offset + b,
    ret is None ==> final(self).offset == old(self).offset,

@@ spec Buffer::get_be16
requires buf_wf(*old(self)),
ensures
    buf_wf(*final(self)), final(self).buffer@ == old(self).buffer@,
    ret is Some <==> 2 <= buf_rem(*old(self)),
    ret is Some ==> final(self).offset == old(self).offset + 2
        && ret->Some_0 as int == old(self).buffer@[old(self).offset as int] as int * 256 + old(self).buffer@[old(self).offset + 1] as int,
    ret is None ==> final(self).offset == old(self).offset,

@@ spec Buffer::get_be32
requires buf_wf(*old(self)),
ensures
    buf_wf(*final(self)), final(self).buffer@ == old(self).buffer@,
    ret is Some <==> 4 <= buf_rem(*old(self)),
    ret is Some ==> final(self).offset == old(self).offset + 4
        && ret->Some_0 as int == spec_be32(old(self).buffer@.subrange(old(self).offset as int, old(self).offset + 4)),
    ret is None ==> final(self).offset == old(self).offset,

@@ spec Buffer::get_ipv4
requires buf_wf(*old(self)),
ensures
    buf_wf(*final(self)), final(self).buffer@ == old(self).buffer@,
    ret is Some <==> 4 <= buf_rem(*old(self)),
    ret is Some ==> final(self).offset == old(self).offset + 4
        && ip4_octets(ret->Some_0) == old(self).buffer@.subrange(old(self).offset as int, old(self).offset + 4),
    ret is None ==> final(self).offset == old(self).offset,

@@ spec Buffer::get_tlv
requires buf_wf(*old(self)),
ensures buf_wf(*final(self)), final(self).buffer@ == old(self).buffer@, final(self).offset >= old(self).offset,

@@ spec Buffer::get_label
requires buf_wf(*old(self)),
ensures buf_wf(*final(self)), final(self).buffer@ == old(self).buffer@,
    ret is Some ==> final(self).offset == old(self).offset + 1 + ret->Some_0@.len(),
    ret is None ==> final(self).offset >= old(self).offset,

@@ spec Buffer::get_domain
requires buf_wf(*old(self)),
ensures buf_wf(*final(self)), final(self).buffer@ == old(self).buffer@,
    ret is Some ==> final(self).offset > old(self).offset,
@@ loop Buffer::get_domain 1
invariant buf_wf(*self), self.buffer@ == old(self).buffer@, self.offset >= old(self).offset,
decreases buf_rem(*self),

@@ spec Buffer::get_domains
requires buf_wf(*old(self)),
ensures buf_wf(*final(self)),
@@ loop Buffer::get_domains 1
invariant buf_wf(*self),
decreases buf_rem(*self),

@@ canary Buffer::get_bytes
requires buf_wf(*old(self)), b <= usize::MAX / 2,
ensures ret is Some,

