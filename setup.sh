#!/bin/sh
# offline setup: check tools, warm Verus' first-run cache. Builds nothing persistent.
set -e
cd "$(dirname "$0")"
command -v verus >/dev/null
command -v cargo-kani >/dev/null || command -v cargo >/dev/null
command -v cbmc >/dev/null
mkdir -p /root/scratch evidence replay
python3 tools/vrun.py bucket --out /root/scratch/setup-warm >/dev/null 2>&1 || true
rm -rf /root/scratch/setup-warm
echo setup ok
