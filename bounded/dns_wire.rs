// Engine B, module wire: the DNS encoder and decoder TOGETHER on whole structured messages, on the REAL code and body-independent.
// The Verus units prove the pieces (header bits, one record, EDNS options, size limit, upper bound); the whole-message round trip depends on
// the compression dictionary (a LinkedList tree outside both verifiers: DESIGN section 6) -- this module is its bounded stand-in, and it
// judges a rewritten serialise_with_size, which the contract proof cannot.
//   wire/roundtrip-structured   messages of 1..1000 records (A, NS, CNAME, PTR, MX, SOA and opaque data of 0, 1, 255, 4000 octets) in all three
//                               sections, owner names and embedded names sharing suffixes at every depth, with and without EDNS options,
//                               incl. messages larger than 16 KiB and messages of exactly 65534 and 65535 octets:
//                               m1 = decode(serialise(m0)) exists, carries m0's id, question and records, and decode(serialise(m1)) == m1
//   wire/size-limit             serialise_with_size(size) for sizes 512, 513, 600, 1232, 4096, full-1, full, full+1, 65535: never longer than
//                               size, decodes, keeps whole records from the front (section by section), TC set exactly when a record is
//                               missing, nothing missing when the full encoding fits
// Child module of dns::dnspkt, compiled only under cfg(test) in the scratch copy.
use super::*;
use crate::dns::parse::PktParser;

struct Tally { name: &'static str, evals: u64, fails: u64 }
impl Tally {
    fn new(name: &'static str) -> Self { Tally { name, evals: 0, fails: 0 } }
    fn check(&mut self, ok: bool, witness: impl FnOnce() -> String) {
        self.evals += 1;
        if !ok {
            self.fails += 1;
            if self.fails <= 20 { println!("VERIF-B-FAIL {} :: {}", self.name, witness()); }
        }
    }
    fn done(&self) { println!("VERIF-B {} evaluations={} failures={}", self.name, self.evals, self.fails); }
}

fn name(i: usize) -> Domain {
    // nested names: suffixes shared at every depth, a few unrelated ones, upper/lower case variants kept distinct octet-wise
    let pool = ["example.com", "a.example.com", "b.a.example.com", "c.b.a.example.com", "mail.example.com", "example.net", "ns1.example.net", "x.y.z.example.org", "com",
                "a-rather-long-label-that-takes-some-room-in-the-message.another-long-label-0123456789.example.com"];
    let base = pool[i % pool.len()];
    let s = if (i / pool.len()) % 3 == 1 { format!("h{}.{}", i, base) } else { base.to_string() };
    s.parse().expect("name")
}
fn record(i: usize, big: usize) -> RR {
    let d = name(i);
    let (rrtype, rdata) = match i % 8 {
        0 => (RR_A, RData::Other(vec![192, 0, 2, (i % 250) as u8])),
        1 => (RR_NS, RData::Ns(name(i + 3))),
        2 => (RR_CNAME, RData::CName(name(i + 5))),
        3 => (RR_MX, RData::Mx(PrefDomainData { pref: i as u16, domain: name(i + 1) })),
        4 => (RR_SOA, RData::Soa(SoaData { mname: name(i + 2), rname: name(i + 4), serial: i as u32, refresh: 7200, retry: 3600, expire: 1209600, minimum: 300 })),
        5 => (RR_PTR, RData::Ptr(name(i + 7))),
        6 => (Type(16), RData::Other(vec![b'x'; [0usize, 1, 255, big][(i / 8) % 4]])),
        _ => (Type(65280), RData::Other(vec![(i % 256) as u8; 3])),
    };
    RR { domain: d, class: CLASS_IN, rrtype, ttl: 60 + i as u32, rdata }
}
fn message(n: usize, edns: bool, big: usize) -> DNSPkt {
    let rrs: Vec<RR> = (0..n).map(|i| record(i, big)).collect();
    let (a, rest) = rrs.split_at(n - n / 3 - n / 4);
    let (ns, ad) = rest.split_at(n / 3);
    DNSPkt {
        qid: 0x1234, rd: true, tc: false, aa: false, qr: true, opcode: OPCODE_QUERY, cd: false, ad: true, ra: true, rcode: NOERROR,
        bufsize: if edns { 1232 } else { 512 }, edns_ver: if edns { Some(0) } else { None }, edns_do: edns,
        question: Question { qdomain: name(1), qtype: RR_A, qclass: CLASS_IN },
        answer: a.to_vec(), nameserver: ns.to_vec(), additional: ad.to_vec(),
        edns: if edns { Some(EdnsData(vec![EdnsOption { code: EDNS_NSID, data: vec![] }, EdnsOption { code: EDNS_COOKIE, data: vec![7; 8] }])) } else { None },
    }
}
fn decode(b: &[u8]) -> Result<DNSPkt, String> { PktParser::new(b).get_dns() }
fn brief(m: &DNSPkt) -> String { format!("{} + {} + {} records, edns {}", m.answer.len(), m.nameserver.len(), m.additional.len(), m.edns.is_some()) }

#[test]
fn verif_wire_contracts() {
    println!();
    println!("VERIF-B-TABLES total=0 nonempty=0");
    let mut msgs: Vec<DNSPkt> = vec![];
    for n in [1usize, 2, 3, 10, 40, 100, 400, 1000] { for e in [false, true] { msgs.push(message(n, e, if n <= 100 { 4000 } else { 255 })); } }
    // (only messages that fit a DNS message at all are judged: a larger one is legitimately truncated)
    msgs.retain(|m| m.serialise_with_size(1 << 20).len() <= 65535);
    // exactly 65534 / 65535 octets: one opaque record sized to land there (root question, root owner: nothing to compress)
    for target in [65534usize, 65535] {
        for e in [false, true] {
            let mut m = message(1, e, 0);
            m.question.qdomain = Domain(vec![]);
            m.answer = vec![RR { domain: Domain(vec![]), class: CLASS_IN, rrtype: Type(16), ttl: 5, rdata: RData::Other(vec![]) }];
            m.nameserver = vec![]; m.additional = vec![];
            let l0 = m.serialise_with_size(70000).len();
            if l0 <= target && target - l0 <= 65535 { m.answer[0].rdata = RData::Other(vec![b'y'; target - l0]); msgs.push(m); }
        }
    }
    let mut t_rt = Tally::new("wire/roundtrip-structured");
    for m0 in &msgs {
        let b0 = m0.serialise();
        let r = std::panic::catch_unwind(|| decode(&b0));
        match r {
            Ok(Ok(m1)) => {
                let same = m1.qid == m0.qid && m1.question.qdomain == m0.question.qdomain && m1.question.qtype == m0.question.qtype && m1.answer == m0.answer && m1.nameserver == m0.nameserver
                    && m1.additional == m0.additional && m1.tc == m0.tc && m1.rcode == m0.rcode && m1.edns == m0.edns && m1.edns_do == m0.edns_do && m1.edns_ver == m0.edns_ver;
                let again = decode(&m1.serialise());
                t_rt.check(same && again.as_ref() == Ok(&m1), || format!("message of {} ({} octets encoded): decode(serialise(m)) {} m; decoding its re-encoding gives {}", brief(m0), b0.len(),
                    if same { "has the records of" } else { "DIFFERS from" }, match &again { Ok(x) if x == &m1 => "the same message".to_string(), Ok(x) => format!("a different message ({})", brief(x)), Err(e) => format!("an error: {}", e) }));
            }
            Ok(Err(e)) => t_rt.check(false, || format!("message of {} ({} octets encoded): the decoder refuses the encoder's output: {}", brief(m0), b0.len(), e)),
            Err(_) => t_rt.check(false, || format!("message of {} ({} octets encoded): the decoder PANICKED on the encoder's output", brief(m0), b0.len())),
        }
    }
    t_rt.done();

    let mut t_sz = Tally::new("wire/size-limit");
    for m0 in msgs.iter().filter(|m| m.answer.len() + m.nameserver.len() + m.additional.len() <= 400) {
        let full = m0.serialise().len();
        let mut sizes = vec![512usize, 513, 600, 1232, 4096, 65535];
        for s in [full.saturating_sub(1), full, full + 1] { if s >= 512 { sizes.push(s); } }
        for size in sizes {
            let b = m0.serialise_with_size(size);
            let got = decode(&b);
            let mut why = String::new();
            let ok = (|| {
                if b.len() > size { why = format!("{} octets for a limit of {}", b.len(), size); return false; }
                let p = match &got { Ok(p) => p, Err(e) => { why = format!("does not decode: {}", e); return false; } };
                let (ka, kn, kd) = (p.answer.len(), p.nameserver.len(), p.additional.len());
                if ka > m0.answer.len() || kn > m0.nameserver.len() || kd > m0.additional.len() || p.answer[..] != m0.answer[..ka] || p.nameserver[..] != m0.nameserver[..kn] || p.additional[..] != m0.additional[..kd] {
                    why = "the records kept are not the leading records of each section".into(); return false;
                }
                if (ka < m0.answer.len() && (kn > 0 || kd > 0)) || (kn < m0.nameserver.len() && kd > 0) { why = "a later section has records although an earlier one is incomplete".into(); return false; }
                let opt_missing = m0.edns.is_some() && p.edns.is_none();
                let missing = ka < m0.answer.len() || kn < m0.nameserver.len() || kd < m0.additional.len() || opt_missing;
                if p.tc != missing { why = format!("TC = {} although records missing = {}", p.tc, missing); return false; }
                if full <= size && missing { why = format!("records dropped although the full encoding ({} octets) fits", full); return false; }
                true
            })();
            t_sz.check(ok, || format!("message of {} (full encoding {} octets), limit {}: {}", brief(m0), full, size, why));
        }
    }
    t_sz.done();
}
