// Engine B, second module: the option table glue of dhcppkt::parse_options (`raw_options.entry(code).or_default().extend(bytes)`, a
// HashMap Entry chain outside Verus: the unit dhcpparse ASSUMES it appends the instance to the value collected so far for that
// code -- stub verif_opts_append) and of DhcpOptions::serialise (HashMap iteration).  Checked here on the REAL code, bounded exhaustive:
//   opts/decode-concatenates   every option area made of up to 3 instances, codes in {43, 60}, values of 0..=2 octets over {AA, BB}
//                              (so: the same instance twice, an instance equal to everything collected so far, empty instances):
//                              the decoded table holds, per code, the concatenation of its instances in wire order (RFC 3396)
//   opts/roundtrip-long        tables of one or two options whose values have length 0, 1, 254, 255, 256, 509, 510, 511, 765 and are
//                              constant, 255-periodic or ramp filled: parse_options(serialise(t)) == t
// Child module of dhcp::dhcppkt, compiled only under cfg(test) in the scratch copy.
use super::*;

struct Tally { name: &'static str, evals: u64, fails: u64 }
impl Tally {
    fn new(name: &'static str) -> Self { Tally { name, evals: 0, fails: 0 } }
    fn check(&mut self, ok: bool, witness: impl FnOnce() -> String) {
        self.evals += 1;
        if !ok {
            self.fails += 1;
            if self.fails <= 20 { println!("VERIF-B-FAIL {} :: {}", self.name, witness()); }
        }
    }
    fn done(&self) { println!("VERIF-B {} evaluations={} failures={}", self.name, self.evals, self.fails); }
}

fn values() -> Vec<Vec<u8>> {
    let mut out = vec![vec![]];
    for a in [0xAAu8, 0xBB] { out.push(vec![a]); for b in [0xAAu8, 0xBB] { out.push(vec![a, b]); } }
    out
}

#[test]
fn verif_opts_contracts() {
    println!("VERIF-B-TABLES total=0 nonempty=0");
    let mut t_dec = Tally::new("opts/decode-concatenates");
    let insts: Vec<(u8, Vec<u8>)> = [43u8, 60].iter().flat_map(|c| values().into_iter().map(move |v| (*c, v))).collect();
    let mut seqs: Vec<Vec<(u8, Vec<u8>)>> = vec![vec![]];
    for a in &insts { seqs.push(vec![a.clone()]); for b in &insts { seqs.push(vec![a.clone(), b.clone()]); for c in &insts { seqs.push(vec![a.clone(), b.clone(), c.clone()]); } } }
    for sq in &seqs {
        let mut wire = vec![];
        for (c, v) in sq { wire.push(*c); wire.push(v.len() as u8); wire.extend_from_slice(v); }
        wire.push(255);
        let mut want: std::collections::HashMap<u8, Vec<u8>> = Default::default();
        for (c, v) in sq { want.entry(*c).or_default().extend_from_slice(v); }
        let got = parse_options(pktparser::Buffer::new(&wire));
        let ok = match &got {
            Ok(o) => o.other.len() == want.len() && want.iter().all(|(c, v)| o.other.get(&DhcpOption(*c)) == Some(v)),
            Err(_) => false,
        };
        t_dec.check(ok, || format!("option area {:02x?}: decoded {:?}, want {:?}", wire, got.as_ref().map(|o| &o.other), want));
    }
    t_dec.done();

    let mut t_rt = Tally::new("opts/roundtrip-long");
    let lens = [0usize, 1, 254, 255, 256, 509, 510, 511, 765];
    let fills: [fn(usize) -> u8; 3] = [|_| 0, |i| (i % 255) as u8, |i| (i % 251) as u8 ^ 0x5a];
    let mut vals: Vec<Vec<u8>> = vec![];
    for l in lens { for f in fills { vals.push((0..l).map(f).collect()); } }
    for a in &vals {
        for second in std::iter::once(None).chain(vals.iter().step_by(4).map(Some)) {
            let mut t = DhcpOptions { other: Default::default() };
            t.other.insert(DhcpOption(43), a.clone());
            if let Some(b) = second { t.other.insert(DhcpOption(60), b.clone()); }
            let mut wire = vec![];
            t.serialise(&mut wire);
            let got = parse_options(pktparser::Buffer::new(&wire));
            let ok = match &got { Ok(o) => o.other == t.other, Err(_) => false };
            t_rt.check(ok, || format!("option 43 of {} octets (first {:02x?}..){}: serialised to {} octets, decoded lengths {:?}", a.len(), &a[..a.len().min(4)],
                if second.is_some() { " + option 60" } else { "" }, wire.len(), got.as_ref().map(|o| o.other.iter().map(|(k, v)| (k.0, v.len())).collect::<Vec<_>>())));
        }
    }
    t_rt.done();
}
