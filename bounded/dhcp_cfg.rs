// Engine B, sixth module: dhcp::config::Config::parse_policy on YAML fragments (yaml-rust containers keep the function outside both
// verifiers; the Verus unit dhcpranges proves the two range expansions as R9 slices and ASSUMES the glue around them: "the expansion is
// appended to the policy's address list, which becomes the policy's address set minus what sub-policies reserve").  Clause checked on
// the REAL code: the address set of a policy is exactly the UNION of everything its address keys name -- apply-address (one address),
// apply-range (start ..= end) and apply-subnet (every host address) -- whatever the order the keys are written in, minus the addresses
// of its sub-policies.
//   policy-addresses/union-of-sources   every non-empty subset of { apply-address: 192.0.2.10, apply-range: .20 ..= .22,
//                                       apply-subnet: 198.51.100.0/30 } in every key order (15 fragments), each with and without a
//                                       sub-policy reserving 192.0.2.21
//   policy-addresses/range-ends         apply-range with start == end, start > end (empty), a range crossing an octet boundary
//   policy-options/null-is-explicit-unset  apply-<name>: null / match-<name>: null for every named option of every type: present, no value
// Child module of dhcp::config, compiled only under cfg(test) in the scratch copy.
use super::*;

struct Tally { name: &'static str, evals: u64, fails: u64 }
impl Tally {
    fn new(name: &'static str) -> Self { Tally { name, evals: 0, fails: 0 } }
    fn check(&mut self, ok: bool, witness: impl FnOnce() -> String) {
        self.evals += 1;
        if !ok {
            self.fails += 1;
            if self.fails <= 20 { println!("VERIF-B-FAIL {} :: {}", self.name, witness()); }
        }
    }
    fn done(&self) { println!("VERIF-B {} evaluations={} failures={}", self.name, self.evals, self.fails); }
}

fn ip(s: &str) -> std::net::Ipv4Addr { s.parse().unwrap() }
fn set(v: &[&str]) -> std::collections::HashSet<std::net::Ipv4Addr> { v.iter().map(|s| ip(s)).collect() }

fn perms(v: &[usize]) -> Vec<Vec<usize>> {
    if v.len() <= 1 { return vec![v.to_vec()]; }
    let mut out = vec![];
    for i in 0..v.len() { let mut rest = v.to_vec(); let x = rest.remove(i); for mut p in perms(&rest) { p.insert(0, x); out.push(p); } }
    out
}

#[test]
fn verif_cfg_contracts() {
    println!("VERIF-B-TABLES total=0 nonempty=0");
    let keys = ["apply-address: 192.0.2.10", "apply-range: {start: 192.0.2.20, end: 192.0.2.22}", "apply-subnet: 198.51.100.0/30"];
    let sets = [set(&["192.0.2.10"]), set(&["192.0.2.20", "192.0.2.21", "192.0.2.22"]), set(&["198.51.100.1", "198.51.100.2"])];
    let mut t_union = Tally::new("policy-addresses/union-of-sources");
    for mask in 1usize..8 {
        let chosen: Vec<usize> = (0..3).filter(|k| mask & (1 << k) != 0).collect();
        for order in perms(&chosen) {
            for with_sub in [false, true] {
                let mut text = String::from("match-subnet: 192.0.2.0/24\n");
                for k in &order { text.push_str(keys[*k]); text.push('\n'); }
                if with_sub { text.push_str("policies:\n  - match-hardware-address: 00:00:5e:00:53:01\n    apply-address: 192.0.2.21\n"); }
                let docs = yaml::YamlLoader::load_from_str(&text).expect("yaml");
                let got = Config::parse_policy(&docs[0]);
                let mut want: std::collections::HashSet<std::net::Ipv4Addr> = Default::default();
                for k in &order { want.extend(sets[*k].iter().copied()); }
                if with_sub { want.remove(&ip("192.0.2.21")); }
                let ok = match &got { Ok(p) => p.apply_address.as_ref() == Some(&want), Err(_) => false };
                t_union.check(ok, || format!("policy keys {:?}{}: address set {:?}, want {:?}", order.iter().map(|k| keys[*k]).collect::<Vec<_>>(), if with_sub { " + sub-policy reserving 192.0.2.21" } else { "" },
                    got.as_ref().map(|p| { let mut v: Vec<_> = p.apply_address.clone().unwrap_or_default().into_iter().collect(); v.sort(); v }).ok(), { let mut v: Vec<_> = want.iter().copied().collect(); v.sort(); v }));
            }
        }
    }
    t_union.done();

    let mut t_ends = Tally::new("policy-addresses/range-ends");
    for (start, end, want) in [("192.0.2.5", "192.0.2.5", set(&["192.0.2.5"])), ("192.0.2.9", "192.0.2.5", set(&[])),
                               ("192.0.2.254", "192.0.3.1", set(&["192.0.2.254", "192.0.2.255", "192.0.3.0", "192.0.3.1"]))] {
        let text = format!("match-subnet: 192.0.2.0/23\napply-range: {{start: {}, end: {}}}\n", start, end);
        let docs = yaml::YamlLoader::load_from_str(&text).expect("yaml");
        let got = std::panic::catch_unwind(|| Config::parse_policy(&docs[0]));
        let ok = match &got { Ok(Ok(p)) => p.apply_address.as_ref() == Some(&want), _ => false };
        t_ends.check(ok, || format!("apply-range {} ..= {}: {}", start, end, match &got { Ok(Ok(p)) => format!("address set {:?}", p.apply_address), Ok(Err(e)) => format!("refused: {}", e), Err(_) => "PANICKED".into() }));
    }
    t_ends.done();

    // `null` on an option key is the explicit "unset / do not send" (apply-) resp. "the client did not send it" (match-) marker, for
    // EVERY option type: the parsed policy carries the option with no value -- never a default value in its place
    let mut t_null = Tally::new("policy-options/null-is-explicit-unset");
    const NAMES: [&str; 75] = ["netmask", "time-offset", "routers", "time-servers", "name-servers", "dns-servers", "log-servers", "quote-servers", "lpr-servers", "impress-servers", "rlp-servers", "host-name", "bootfile-size", "domain-name", "root-path", "extension-file", "forward", "source-route", "max-reassembly", "default-ttl", "mtu-timeout", "mtu", "mtu-subnet", "broadcast", "mask-discovery", "mask-supplier", "router-discovery", "router-request", "trailers", "arp-timeout", "ethernet", "tcp-ttl", "tcp-keepalive", "tcp-keepalive-garbage", "nis-domain", "nis-servers", "ntp-servers", "netbios-namesrv", "netbios-distsrv", "netbios-type", "netbios-scope", "xwindow-font-servers", "xwindow-display", "address-request", "lease-time", "server-id", "message", "max-size", "renewal-time", "rebind-time", "class-id", "client-id", "nisplus-domain", "nisplus-servers", "tftp-server", "home-agent-servers", "smtp-servers", "pop3-servers", "nntp-servers", "www-servers", "finger-servers", "irc-servers", "streettalk-servers", "stda-servers", "user-class", "fqdn", "tz-rule", "tz-name", "autoconfig", "subnet-selection", "dns-searches", "ipv6-preferred", "captive-portal", "routes", "wpad-url"];
    for name in NAMES {
        let opt = match dhcppkt::name_to_option(name) { Some(o) => o, None => continue };
        for key in ["apply", "match"] {
            let text = format!("match-subnet: 192.0.2.0/24\n{}-{}: null\n", key, name);
            let docs = yaml::YamlLoader::load_from_str(&text).expect("yaml");
            let got = std::panic::catch_unwind(|| Config::parse_policy(&docs[0]));
            let entry = match &got { Ok(Ok(p)) => Some(if key == "apply" { p.apply_other.get(&opt).cloned() } else { p.match_other.get(&opt).cloned() }), _ => None };
            t_null.check(matches!(entry, Some(Some(None))), || format!("{}-{}: null parsed to {}", key, name,
                match &got { Ok(Ok(_)) => format!("{:?} (expected the option present with no value)", entry.clone().flatten()), Ok(Err(e)) => format!("an error: {}", e), Err(_) => "a PANIC".into() }));
        }
    }
    t_null.done();
}
