// Engine B, eighth module: dns::IpRateLimiter on the REAL code.  The Verus unit bucket proves "a granted source is charged on exactly one
// of ITS two buckets" with hash_ip stubbed as a deterministic function of (seed, address) -- an ASSUMPTION about std's hasher that this
// module checks, together with its consequence, the per-source bound of C16:
//   ratelimit/source-maps-to-fixed-buckets   hash_ip(seed, ip) called repeatedly returns the same value, for both seeds and 40
//                                            IPv4 / IPv6 addresses
//   ratelimit/flood-from-one-source-bounded  2000 back-to-back requests of cost 1 / 10 / 50 / 100 from ONE address are granted at most
//                                            2 x (BURST + RATE x (elapsed + 1)) tokens in total (two buckets of 100 tokens, 2 per second)
// Child module of dns (mod.rs), compiled only under cfg(test) in the scratch copy.
use super::*;

struct Tally { name: &'static str, evals: u64, fails: u64 }
impl Tally {
    fn new(name: &'static str) -> Self { Tally { name, evals: 0, fails: 0 } }
    fn check(&mut self, ok: bool, witness: impl FnOnce() -> String) {
        self.evals += 1;
        if !ok {
            self.fails += 1;
            if self.fails <= 20 { println!("VERIF-B-FAIL {} :: {}", self.name, witness()); }
        }
    }
    fn done(&self) { println!("VERIF-B {} evaluations={} failures={}", self.name, self.evals, self.fails); }
}

#[tokio::test]
async fn verif_ratelimit_contracts() {
    println!("VERIF-B-TABLES total=0 nonempty=0");
    let mut addrs: Vec<std::net::IpAddr> = vec![];
    for k in 0..20u32 { addrs.push(std::net::IpAddr::V4(std::net::Ipv4Addr::from(0xC000_0200u32 + k * 7))); addrs.push(std::net::IpAddr::V6(std::net::Ipv6Addr::from(0x2001_0db8_0000_0000_0000_0000_0000_0000u128 + k as u128 * 0x1_0001))); }
    let mut t_fix = Tally::new("ratelimit/source-maps-to-fixed-buckets");
    for a in &addrs {
        for seed in [0x1234_5678_9ABC_DEF0u64, 0x2345_6789_ABCD_EF01] {
            let h: Vec<usize> = (0..4).map(|_| IpRateLimiter::hash_ip(seed, *a)).collect();
            t_fix.check(h.iter().all(|x| *x == h[0]), || format!("hash_ip({:#x}, {}) returned {:?} on four calls", seed, a, h));
        }
    }
    t_fix.done();

    let mut t_flood = Tally::new("ratelimit/flood-from-one-source-bounded");
    for cost in [1usize, 10, 50, 100] {
        for a in addrs.iter().take(6) {
            let rl = IpRateLimiter::new();
            let t0 = std::time::Instant::now();
            let mut granted = 0usize;
            for _ in 0..2000 { if rl.check(*a, cost).await { granted += cost; } }
            let secs = t0.elapsed().as_secs() as usize + 1;
            let bound = 2 * (100 + 2 * secs);
            t_flood.check(granted <= bound, || format!("2000 requests of cost {} from {} within {} s: {} tokens granted, bound {}", cost, a, secs, granted, bound));
        }
    }
    t_flood.done();
}
