// Engine B, module http: the lease listing of the HTTP API on the REAL serve_leases, body-independent (the Verus unit httpd proves the
// entry count and the string escaping for the body it was written against; the iterator/format! chain that renders an entry is outside it).
//   http/lease-listing-one-entry-per-lease   for stores holding 0, 1, 3 and 5 leases -- client identifiers of 0, 1, 2, 6 and 255 octets,
//                                            host names absent / plain / with quote and backslash / with control characters (every one of them) / non-ASCII, stored option
//                                            areas that do not decode --
//                                            GET leases.json answers 200 with a syntactically valid JSON document (RFC 8259, checked by
//                                            the small parser below) whose "leases" array has exactly one entry per stored lease, carrying
//                                            that lease's ip, client_id (lower-case hex octets joined by ':'), start, expire and host name
// Child module of http, compiled only under cfg(test) in the scratch copy.
use super::*;

struct Tally { name: &'static str, evals: u64, fails: u64 }
impl Tally {
    fn new(name: &'static str) -> Self { Tally { name, evals: 0, fails: 0 } }
    fn check(&mut self, ok: bool, witness: impl FnOnce() -> String) {
        self.evals += 1;
        if !ok {
            self.fails += 1;
            if self.fails <= 20 { println!("VERIF-B-FAIL {} :: {}", self.name, witness()); }
        }
    }
    fn done(&self) { println!("VERIF-B {} evaluations={} failures={}", self.name, self.evals, self.fails); }
}

#[derive(Debug, Clone, PartialEq)]
enum J { Null, Bool(bool), Num(f64), Str(String), Arr(Vec<J>), Obj(Vec<(String, J)>) }
struct P<'a> { s: &'a [u8], i: usize }
impl<'a> P<'a> {
    fn ws(&mut self) { while self.i < self.s.len() && matches!(self.s[self.i], b' ' | b'\t' | b'\n' | b'\r') { self.i += 1; } }
    fn lit(&mut self, w: &str) -> bool { if self.s[self.i..].starts_with(w.as_bytes()) { self.i += w.len(); true } else { false } }
    fn value(&mut self) -> Option<J> {
        self.ws();
        match *self.s.get(self.i)? {
            b'n' => self.lit("null").then_some(J::Null),
            b't' => self.lit("true").then_some(J::Bool(true)),
            b'f' => self.lit("false").then_some(J::Bool(false)),
            b'"' => self.string().map(J::Str),
            b'[' => {
                self.i += 1; let mut v = vec![]; self.ws();
                if self.s.get(self.i) == Some(&b']') { self.i += 1; return Some(J::Arr(v)); }
                loop { v.push(self.value()?); self.ws(); match self.s.get(self.i)? { b',' => self.i += 1, b']' => { self.i += 1; return Some(J::Arr(v)); } _ => return None } }
            }
            b'{' => {
                self.i += 1; let mut v = vec![]; self.ws();
                if self.s.get(self.i) == Some(&b'}') { self.i += 1; return Some(J::Obj(v)); }
                loop {
                    self.ws(); let k = self.string()?; self.ws();
                    if self.s.get(self.i) != Some(&b':') { return None; }
                    self.i += 1; let x = self.value()?; v.push((k, x)); self.ws();
                    match self.s.get(self.i)? { b',' => self.i += 1, b'}' => { self.i += 1; return Some(J::Obj(v)); } _ => return None }
                }
            }
            _ => {
                let st = self.i;
                if self.s.get(self.i) == Some(&b'-') { self.i += 1; }
                let d0 = self.i;
                while self.i < self.s.len() && self.s[self.i].is_ascii_digit() { self.i += 1; }
                if self.i == d0 || (self.s[d0] == b'0' && self.i - d0 > 1) { return None; }
                if self.s.get(self.i) == Some(&b'.') { self.i += 1; let f0 = self.i; while self.i < self.s.len() && self.s[self.i].is_ascii_digit() { self.i += 1; } if self.i == f0 { return None; } }
                if matches!(self.s.get(self.i), Some(b'e') | Some(b'E')) {
                    self.i += 1; if matches!(self.s.get(self.i), Some(b'+') | Some(b'-')) { self.i += 1; }
                    let e0 = self.i; while self.i < self.s.len() && self.s[self.i].is_ascii_digit() { self.i += 1; } if self.i == e0 { return None; }
                }
                std::str::from_utf8(&self.s[st..self.i]).ok()?.parse::<f64>().ok().map(J::Num)
            }
        }
    }
    fn string(&mut self) -> Option<String> {
        if self.s.get(self.i) != Some(&b'"') { return None; }
        self.i += 1;
        let mut out: Vec<u16> = vec![];
        let mut raw: Vec<u8> = vec![];
        let flush = |raw: &mut Vec<u8>, out: &mut Vec<u16>| -> Option<()> { out.extend(std::str::from_utf8(raw).ok()?.encode_utf16()); raw.clear(); Some(()) };
        loop {
            let c = *self.s.get(self.i)?;
            self.i += 1;
            match c {
                b'"' => { flush(&mut raw, &mut out)?; return String::from_utf16(&out).ok(); }
                b'\\' => {
                    flush(&mut raw, &mut out)?;
                    let e = *self.s.get(self.i)?; self.i += 1;
                    match e {
                        b'"' => out.push(b'"' as u16), b'\\' => out.push(b'\\' as u16), b'/' => out.push(b'/' as u16), b'b' => out.push(8), b'f' => out.push(12),
                        b'n' => out.push(10), b'r' => out.push(13), b't' => out.push(9),
                        b'u' => { let h = std::str::from_utf8(self.s.get(self.i..self.i + 4)?).ok()?; if !h.bytes().all(|b| b.is_ascii_hexdigit()) { return None; } out.push(u16::from_str_radix(h, 16).ok()?); self.i += 4; }
                        _ => return None,
                    }
                }
                0..=0x1f => return None,
                _ => raw.push(c),
            }
        }
    }
}
fn parse_json(s: &[u8]) -> Option<J> { let mut p = P { s, i: 0 }; let v = p.value()?; p.ws(); (p.i == s.len()).then_some(v) }
fn field<'a>(o: &'a J, k: &str) -> Option<&'a J> { if let J::Obj(v) = o { let m: Vec<_> = v.iter().filter(|(n, _)| n == k).collect(); if m.len() == 1 { Some(&m[0].1) } else { None } } else { None } }

fn opts_with_host(h: Option<&[u8]>) -> Vec<u8> { match h { Some(h) => { let mut v = vec![12u8, h.len() as u8]; v.extend_from_slice(h); v.push(255); v } None => vec![255u8] } }

#[test]
fn verif_http_contracts() {
    println!();
    println!("VERIF-B-TABLES total=0 nonempty=0");
    let mut t = Tally::new("http/lease-listing-one-entry-per-lease");
    let ids: Vec<Vec<u8>> = vec![vec![], vec![0x01], vec![0xab, 0x0c], vec![0, 0x5e, 0, 0x53, 0, 0xff], (0..255u32).map(|i| i as u8).collect()];
    let mut hosts: Vec<Option<Vec<u8>>> = vec![None, Some(b"host".to_vec()), Some(b"a\"b\\c".to_vec()), Some(b"x\x01y\ttab".to_vec()), Some("b\u{fc}ro".as_bytes().to_vec())];
    // every control octet (each needs an escape RFC 8259 knows) and DEL in one name
    hosts.push(Some((1u8..=31).chain(std::iter::once(127u8)).collect()));
    let mut stores: Vec<Vec<(Vec<u8>, Option<Vec<u8>>)>> = vec![vec![]];
    for i in &ids { for h in &hosts { stores.push(vec![(i.clone(), h.clone())]); } }
    stores.push(vec![(ids[1].clone(), hosts[1].clone()), (ids[0].clone(), hosts[0].clone()), (ids[3].clone(), hosts[2].clone())]);
    stores.push(ids.iter().zip(hosts.iter()).map(|(i, h)| (i.clone(), h.clone())).collect());
    // stored option areas that do not decode (truncated value, no end marker, empty): the lease is listed all the same, without a host name
    let broken: Vec<Vec<u8>> = vec![vec![12, 200, b'x'], vec![12], vec![], vec![53]];
    let n_regular = stores.len();
    for b in &broken { stores.push(vec![(ids[1].clone(), None), (ids[2].clone(), Some(b.clone()))]); }
    for (sn, store) in stores.into_iter().enumerate() {
        let st = store.clone();
        let raw_area = sn >= n_regular;       // in these stores the second lease's "host" octets are its whole stored option area
        // (own thread and runtime per listing: a panic inside the handler is caught as a failed join)
        let res = std::thread::spawn(move || {
            tokio::runtime::Builder::new_current_thread().enable_all().build().expect("runtime").block_on(async move {
                let clients: Vec<(Vec<u8>, Vec<u8>)> = st.iter().enumerate().map(|(k, (i, h))| (i.clone(), if raw_area && k == 1 { h.clone().unwrap_or_default() } else { opts_with_host(h.as_deref()) })).collect();
                let (svc, granted) = match crate::dhcp::verif_httpsvc::service(&clients).await { Ok(x) => x, Err(e) => return Err(e) };
                let rows = svc.get_leases().await;
                let req = Request::builder().uri("/api/v1/leases.json").body(Full::<Bytes>::new(Bytes::new())).expect("request");
                let resp = serve_leases(req, &svc).await.expect("infallible");
                let status = resp.status().as_u16();
                use http_body_util::BodyExt as _;
                let body = resp.into_body().collect().await.expect("body").to_bytes().to_vec();
                Ok((status, body, granted, rows))
            })
        }).join();
        let describe = || format!("store of {} lease(s) (client id, host name{}) {:?}", store.len(), if raw_area { "; the second entry's octets are its whole stored option area, which does not decode" } else { "" }, store.iter().map(|(i, h)| (if i.len() > 8 { format!("<{} octets>", i.len()) } else { format!("{:02x?}", i) }, h.as_ref().map(|h| String::from_utf8_lossy(h).to_string()))).collect::<Vec<_>>());
        match res {
            Err(_) => t.check(false, || format!("{}: the handler PANICKED, no document is served", describe())),
            Ok(Err(e)) => println!("VERIF-B-RIG service could not be built: {}", e),
            Ok(Ok((status, body, granted, rows))) => {
                let doc = parse_json(&body);
                let mut why = String::new();
                let ok = (|| {
                    if status != 200 { why = format!("status {}", status); return false; }
                    let doc = match &doc { Some(d) => d, None => { why = "the body is not valid JSON".into(); return false; } };
                    let arr = match field(doc, "leases") { Some(J::Arr(a)) => a, _ => { why = "no \"leases\" array".into(); return false; } };
                    if arr.len() != store.len() || rows.len() != store.len() { why = format!("{} entries for {} leases", arr.len(), store.len()); return false; }
                    for (k, (ip, cid)) in granted.iter().enumerate() {
                        let row = match rows.iter().find(|r| r.ip == *ip) { Some(r) => r, None => { why = format!("no row for {}", ip); return false; } };
                        let want_id = cid.iter().map(|b| format!("{:02x}", b)).collect::<Vec<_>>().join(":");
                        let es: Vec<&J> = arr.iter().filter(|e| field(e, "ip") == Some(&J::Str(ip.to_string()))).collect();
                        if es.len() != 1 { why = format!("{} entries for {}", es.len(), ip); return false; }
                        let e = es[0];
                        if field(e, "client_id") != Some(&J::Str(want_id.clone())) { why = format!("client_id of {} is {:?}, expected {:?}", ip, field(e, "client_id"), want_id); return false; }
                        if field(e, "start") != Some(&J::Num(row.start as f64)) || field(e, "expire") != Some(&J::Num(row.expire as f64)) { why = format!("start/expire of {} are {:?}/{:?}, stored {}/{}", ip, field(e, "start"), field(e, "expire"), row.start, row.expire); return false; }
                        let want_host = if raw_area && k == 1 { None } else { store[k].1.as_ref().map(|h| J::Str(String::from_utf8_lossy(h).to_string())) };
                        if field(e, "host-name") != want_host.as_ref() { why = format!("host-name of {} is {:?}, expected {:?}", ip, field(e, "host-name"), want_host); return false; }
                    }
                    true
                })();
                t.check(ok, || format!("{}: {}; body {:?}", describe(), why, String::from_utf8_lossy(&body).chars().take(300).collect::<String>()));
            }
        }
    }
    t.done();
}
