// Engine B, fourth module: dhcp::apply_policy on the REAL code, body-independent (the Verus unit policy proves the full recursive model
// for the body it was written against; this module judges the two gate clauses also for a rewritten body).
//   policy/option-gate     "an apply-<option> value is sent only if the client asked for that option (parameter request list), and is
//                          sent if it did": one matching policy carrying one option out of 10 codes (incl. pairs 128 apart: 1/129,
//                          6/134, 42/170, 124/252, 28/156); parameter request lists = every list of 0..=2 codes out of the same 10:
//                          the option appears in the reply's option table iff its OWN code is in the list
//   policy/subnet-defaults netmask (1) / broadcast (28) defaults of a match-subnet policy: present iff requested
//   policy/first-matching-sibling-wins  1..=3 sibling policies (flat, and under a match-all parent), every subset of them matching: address
//                          set and option value are those of the first matching sibling
// Child module of dhcp (mod.rs), compiled only under cfg(test) in the scratch copy.
use super::*;

struct Tally { name: &'static str, evals: u64, fails: u64 }
impl Tally {
    fn new(name: &'static str) -> Self { Tally { name, evals: 0, fails: 0 } }
    fn check(&mut self, ok: bool, witness: impl FnOnce() -> String) {
        self.evals += 1;
        if !ok {
            self.fails += 1;
            if self.fails <= 20 { println!("VERIF-B-FAIL {} :: {}", self.name, witness()); }
        }
    }
    fn done(&self) { println!("VERIF-B {} evaluations={} failures={}", self.name, self.evals, self.fails); }
}

const CODES: [u8; 10] = [1, 129, 6, 134, 42, 170, 124, 252, 28, 156];

fn request(paramlist: &[u8]) -> DHCPRequest {
    let mut req = DHCPRequest { serverip: "192.0.2.1".parse().unwrap(), ..Default::default() };
    if !paramlist.is_empty() { req.pkt.options.other.insert(dhcppkt::OPTION_PARAMLIST, paramlist.to_vec()); }
    req
}

#[test]
fn verif_policy_contracts() {
    println!("VERIF-B-TABLES total=0 nonempty=0");
    let mut lists: Vec<Vec<u8>> = vec![vec![]];
    for a in CODES { lists.push(vec![a]); for b in CODES { if b != a { lists.push(vec![a, b]); } } }
    let mut t_gate = Tally::new("policy/option-gate");
    for code in CODES {
        for pl in &lists {
            let mut p = config::Policy { match_all: true, ..Default::default() };
            p.apply_other.insert(dhcppkt::DhcpOption::from(code), Some(dhcppkt::DhcpOptionTypeValue::String("v".into())));
            let req = request(pl);
            let mut resp: Response = Default::default();
            let applied = apply_policies(&req, std::slice::from_ref(&p), &mut resp);
            let sent = resp.options.to_options().other.contains_key(&dhcppkt::DhcpOption::from(code));
            t_gate.check(applied && sent == pl.contains(&code), || format!("policy applies option {}, client requested {:?}: applied={} option in reply={}", code, pl, applied, sent));
        }
    }
    t_gate.done();

    let mut t_def = Tally::new("policy/subnet-defaults");
    for pl in &lists {
        let p = config::Policy { match_subnet: Some(erbium_net::Ipv4Subnet::new("192.0.2.0".parse().unwrap(), 24).unwrap()), ..Default::default() };
        let req = request(pl);
        let mut resp: Response = Default::default();
        let applied = apply_policies(&req, std::slice::from_ref(&p), &mut resp);
        let o = resp.options.to_options();
        let ok = applied && o.other.contains_key(&dhcppkt::OPTION_NETMASK) == pl.contains(&1) && o.other.contains_key(&dhcppkt::OPTION_BROADCAST) == pl.contains(&28);
        t_def.check(ok, || format!("match-subnet policy, client requested {:?}: applied={} netmask sent={} broadcast sent={}", pl, applied,
            o.other.contains_key(&dhcppkt::OPTION_NETMASK), o.other.contains_key(&dhcppkt::OPTION_BROADCAST)));
    }
    t_def.done();

    // first match among siblings (flat and one level down): of several sibling policies that match, the FIRST one is applied and the
    // later ones are not even looked at -- address set and option values are those of the first matching sibling
    let mut t_first = Tally::new("policy/first-matching-sibling-wins");
    let sibling = |i: usize, matches: bool| {
        let mut p = config::Policy { ..Default::default() };
        if matches { p.match_all = true; } else { p.match_chaddr = Some(vec![9, 9, 9, 9, 9, 9]); }
        let mut a = pool::PoolAddresses::default();
        a.insert(std::net::Ipv4Addr::new(192, 0, 2, 10 + i as u8));
        p.apply_address = Some(a);
        p.apply_other.insert(dhcppkt::DhcpOption::from(129u8), Some(dhcppkt::DhcpOptionTypeValue::String(format!("v{}", i))));
        p
    };
    for n in 1..=3usize {
        for mask in 0..(1usize << n) {
            for nested in [false, true] {
                let sibs: Vec<config::Policy> = (0..n).map(|i| sibling(i, mask & (1 << i) != 0)).collect();
                let first = (0..n).find(|i| mask & (1 << i) != 0);
                let top: Vec<config::Policy> = if nested {
                    let mut parent = config::Policy { match_all: true, policies: sibs, ..Default::default() };
                    let mut a = pool::PoolAddresses::default();
                    a.insert(std::net::Ipv4Addr::new(192, 0, 2, 50));
                    parent.apply_address = Some(a);
                    vec![parent]
                } else { sibs };
                let req = request(&[129]);
                let mut resp: Response = Default::default();
                let applied = apply_policies(&req, &top, &mut resp);
                let addr: Option<Vec<std::net::Ipv4Addr>> = resp.address.as_ref().map(|s| { let mut v: Vec<_> = s.iter().copied().collect(); v.sort(); v });
                let opt = resp.options.to_options().other.get(&dhcppkt::DhcpOption::from(129u8)).cloned();
                let want_addr = match (first, nested) {
                    (Some(f), _) => Some(vec![std::net::Ipv4Addr::new(192, 0, 2, 10 + f as u8)]),
                    (None, true) => Some(vec![std::net::Ipv4Addr::new(192, 0, 2, 50)]),
                    (None, false) => None,
                };
                let want_opt = first.map(|f| format!("v{}", f).into_bytes());
                let ok = applied == (nested || first.is_some()) && addr == want_addr && opt == want_opt;
                t_first.check(ok, || format!("{} sibling policies{}, matching ones (bit i = sibling i) {:#b}: applied={} address set {:?} (expected {:?}), option 129 {:?} (expected {:?})",
                    n, if nested { " under a match-all parent" } else { "" }, mask, applied, addr, want_addr, opt, want_opt));
            }
        }
    }
    t_first.done();
}

