// Engine B, seventh module: radv::icmppkt::serialise_router_advertisement on the REAL code, body-independent, for the option arms whose
// length arithmetic a rewrite is most likely to get wrong.  (The Verus unit raser proves the whole encoder for every option list, for
// the body it was written against; CBMC cannot take the function even for one fixed-length option.)  An independent RFC 4861 option
// walker (type, length in units of 8 octets) reads the encoder's output back.
//   radv-wire/captive-portal   one CaptivePortal option, URLs of EVERY length 0 ..= 2050 ('a'..'z' cycling): RFC 8910 -- type 37, the
//                              option is the next multiple of 8 at or above 2 + len octets, URL then zero padding; a URL over
//                              2038 octets (does not fit 255 units) gives no option; nothing else follows the 16-octet header
//   radv-wire/dnssl            one DnsSearchList option with 1 ..= 3 names of 1 ..= 3 labels of 1 / 7 / 63 octets: RFC 8106 -- type 31,
//                              length = (8 + encoded names rounded up to 8) / 8, each name as length-prefixed labels with a zero octet
//   radv-wire/rdnss            one RecursiveDnsServers option with 0 ..= 130 addresses: RFC 8106 -- split into options of at most 127
//                              addresses, length = 1 + 2 * addresses, addresses in order, none for an empty list
// Child module of radv::icmppkt, compiled only under cfg(test) in the scratch copy.
use super::*;

struct Tally { name: &'static str, evals: u64, fails: u64 }
impl Tally {
    fn new(name: &'static str) -> Self { Tally { name, evals: 0, fails: 0 } }
    fn check(&mut self, ok: bool, witness: impl FnOnce() -> String) {
        self.evals += 1;
        if !ok {
            self.fails += 1;
            if self.fails <= 20 { println!("VERIF-B-FAIL {} :: {}", self.name, witness()); }
        }
    }
    fn done(&self) { println!("VERIF-B {} evaluations={} failures={}", self.name, self.evals, self.fails); }
}

fn ra(opts: Vec<NDOptionValue>) -> RtrAdvertisement {
    RtrAdvertisement { hop_limit: 64, flag_managed: false, flag_other: false, lifetime: std::time::Duration::from_secs(1800),
        reachable: std::time::Duration::from_secs(0), retrans: std::time::Duration::from_secs(0), options: NDOptions(opts) }
}
/// RFC 4861 4.6 option walker over the octets after the 16-octet RA header: Some(list of (type, whole option octets)) if well formed
fn walk(v: &[u8]) -> Option<Vec<(u8, Vec<u8>)>> {
    if v.len() < 16 { return None; }
    let mut out = vec![];
    let mut i = 16;
    while i < v.len() {
        if i + 2 > v.len() { return None; }
        let l = v[i + 1] as usize * 8;
        if l == 0 || i + l > v.len() { return None; }
        out.push((v[i], v[i..i + l].to_vec()));
        i += l;
    }
    Some(out)
}

#[test]
fn verif_radv_contracts() {
    println!("VERIF-B-TABLES total=0 nonempty=0");
    let mut t_cp = Tally::new("radv-wire/captive-portal");
    for n in 0..=2050usize {
        let url: String = (0..n).map(|k| (b'a' + (k % 26) as u8) as char).collect();
        let v = std::panic::catch_unwind(|| serialise_router_advertisement(&ra(vec![NDOptionValue::CaptivePortal(url.clone())])));
        let ok = match &v {
            Ok(v) => match walk(v) {
                Some(opts) if n <= 255 * 8 - 2 => opts.len() == 1 && opts[0].0 == 37 && {
                    let o = &opts[0].1;
                    o.len() == (2 + n + 7) / 8 * 8 && &o[2..2 + n] == url.as_bytes() && o[2 + n..].iter().all(|b| *b == 0)
                },
                Some(opts) => opts.is_empty(),
                None => false,
            },
            Err(_) => false,
        };
        t_cp.check(ok, || format!("captive-portal URL of {} octets: {}", n, match &v { Ok(v) => format!("{} octets after the header, option header {:02x?}", v.len() - 16, &v[16..v.len().min(18)]), Err(_) => "PANICKED".into() }));
    }
    t_cp.done();

    let mut t_sl = Tally::new("radv-wire/dnssl");
    let lab = |l: usize, c: u8| -> String { (0..l).map(|_| c as char).collect() };
    let mut names: Vec<String> = vec![];
    for a in [1usize, 7, 63] { names.push(lab(a, b'a')); for b in [1usize, 7, 63] { names.push(format!("{}.{}", lab(a, b'a'), lab(b, b'b'))); for c in [1usize, 63] { names.push(format!("{}.{}.{}", lab(a, b'a'), lab(b, b'b'), lab(c, b'c'))); } } }
    let mut lists: Vec<Vec<String>> = vec![];
    for a in &names { lists.push(vec![a.clone()]); }
    for a in names.iter().step_by(3) { for b in names.iter().step_by(4) { lists.push(vec![a.clone(), b.clone()]); for c in names.iter().step_by(7) { lists.push(vec![a.clone(), b.clone(), c.clone()]); } } }
    for l in &lists {
        let v = std::panic::catch_unwind(|| serialise_router_advertisement(&ra(vec![NDOptionValue::DnsSearchList((std::time::Duration::from_secs(600), l.clone()))])));
        let mut enc: Vec<u8> = vec![];
        for n in l { for part in n.split('.') { enc.push(part.len() as u8); enc.extend_from_slice(part.as_bytes()); } enc.push(0); }
        let ok = match &v {
            Ok(v) => match walk(v) {
                Some(opts) => opts.len() == 1 && opts[0].0 == 31 && {
                    let o = &opts[0].1;
                    o.len() == (8 + enc.len() + 7) / 8 * 8 && o[2] == 0 && o[3] == 0 && o[4..8] == 600u32.to_be_bytes() && o[8..8 + enc.len()] == enc[..] && o[8 + enc.len()..].iter().all(|b| *b == 0)
                },
                None => false,
            },
            Err(_) => false,
        };
        t_sl.check(ok, || format!("search list {:?} (label lengths): {}", l.iter().map(|n| n.split('.').map(|p| p.len()).collect::<Vec<_>>()).collect::<Vec<_>>(),
            match &v { Ok(v) => format!("{} octets after the header", v.len() - 16), Err(_) => "PANICKED".into() }));
    }
    t_sl.done();

    let mut t_rd = Tally::new("radv-wire/rdnss");
    for n in 0..=130usize {
        let addrs: Vec<std::net::Ipv6Addr> = (0..n).map(|k| std::net::Ipv6Addr::from(0x2001_0db8_0000_0000_0000_0000_0000_0000u128 + k as u128 + 1)).collect();
        let v = std::panic::catch_unwind(|| serialise_router_advertisement(&ra(vec![NDOptionValue::RecursiveDnsServers((std::time::Duration::from_secs(600), addrs.clone()))])));
        let ok = match &v {
            Ok(v) => match walk(v) {
                Some(opts) => {
                    let mut seen: Vec<std::net::Ipv6Addr> = vec![];
                    let mut fine = opts.len() == (n + 126) / 127;
                    for (t, o) in &opts {
                        fine = fine && *t == 25 && o.len() >= 24 && (o.len() - 8) % 16 == 0 && (o.len() - 8) / 16 <= 127 && o[2] == 0 && o[3] == 0 && o[4..8] == 600u32.to_be_bytes();
                        if fine { for c in o[8..].chunks(16) { let mut a = [0u8; 16]; a.copy_from_slice(c); seen.push(std::net::Ipv6Addr::from(a)); } }
                    }
                    fine && seen == addrs
                }
                None => false,
            },
            Err(_) => false,
        };
        t_rd.check(ok, || format!("{} recursive DNS servers: {}", n, match &v { Ok(v) => format!("{} octets after the header", v.len() - 16), Err(_) => "PANICKED".into() }));
    }
    t_rd.done();
}
