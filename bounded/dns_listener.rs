// Engine B, ninth module: the DNS-over-TCP entry point on the REAL code over real loopback sockets (run_tcp_listener -> run_tcp ->
// spawned task -> ACL).  The Verus unit dnsreply covers the spawned task's body as an R9 slice with the emission-point precondition "the
// ACL layer is handed the PEER's address"; the code around the slice (accept, the socket reads, tokio::spawn) is outside Verus, and a
// change that takes the address from there leaves the slice unresolved (seeded change C08-5).  This module closes that gap:
//   listener/tcp-acl-judges-the-peer   3 ACL tables x clients connecting FROM 127.0.0.1 / 127.0.0.2 / 127.0.0.3 to a listener on
//                                      127.0.0.1: the reply is REFUSED iff the first rule matching the CLIENT's address does not grant
//                                      dns-recursion (no routes are configured, so a permitted query ends in SERVFAIL, never REFUSED)
// Child module of dns (mod.rs), compiled only under cfg(test) in the scratch copy.
use super::*;

struct Tally { name: &'static str, evals: u64, fails: u64 }
impl Tally {
    fn new(name: &'static str) -> Self { Tally { name, evals: 0, fails: 0 } }
    fn check(&mut self, ok: bool, witness: impl FnOnce() -> String) {
        self.evals += 1;
        if !ok {
            self.fails += 1;
            if self.fails <= 20 { println!("VERIF-B-FAIL {} :: {}", self.name, witness()); }
        }
    }
    fn done(&self) { println!("VERIF-B {} evaluations={} failures={}", self.name, self.evals, self.fails); }
}

async fn tcp_rcode(acls: &str, client_ip: &str) -> Result<u8, String> {
    use tokio::io::{AsyncReadExt as _, AsyncWriteExt as _};
    let conf = crate::config::load_config_from_string_for_test(acls).map_err(|e| format!("config: {}", e))?;
    let listener = tokio::net::TcpListener::bind("127.0.0.1:0").await.map_err(|e| format!("bind: {}", e))?;
    let server_addr = listener.local_addr().unwrap();
    let handler = std::sync::Arc::new(tokio::sync::RwLock::new(DnsListenerHandler {
        next: acl::DnsAclHandler::new(conf).await, udp_listeners: vec![], tcp_listeners: vec![], rate_limiter: IpRateLimiter::new().into(),
    }));
    let server = tokio::spawn(async move { DnsListenerHandler::run_tcp_listener(&listener, &handler).await.map_err(|e| e.to_string()) });
    let sock = tokio::net::TcpSocket::new_v4().map_err(|e| e.to_string())?;
    sock.bind(format!("{}:0", client_ip).parse().unwrap()).map_err(|e| format!("bind client {}: {}", client_ip, e))?;
    let mut stream = sock.connect(server_addr).await.map_err(|e| format!("connect: {}", e))?;
    let mut q = vec![0x12, 0x34, 0x01, 0x00, 0x00, 0x01, 0x00, 0x00, 0x00, 0x00, 0x00, 0x00];
    q.extend(b"\x07example\x03com\x00");
    q.extend([0x00, 0x01, 0x00, 0x01]);
    let mut framed = (q.len() as u16).to_be_bytes().to_vec();
    framed.extend(q);
    stream.write_all(&framed).await.map_err(|e| e.to_string())?;
    let mut l = [0u8; 2];
    tokio::time::timeout(std::time::Duration::from_secs(10), stream.read_exact(&mut l)).await.map_err(|_| "no reply within 10 s".to_string())?.map_err(|e| e.to_string())?;
    let mut reply = vec![0u8; u16::from_be_bytes(l) as usize];
    stream.read_exact(&mut reply).await.map_err(|e| e.to_string())?;
    let _ = server.await;
    if reply.len() < 4 || reply[0..2] != [0x12, 0x34] { return Err(format!("malformed reply {:02x?}", &reply[..reply.len().min(12)])); }
    Ok(reply[3] & 0x0f)
}

#[tokio::test]
async fn verif_listener_contracts() {
    println!("VERIF-B-TABLES total=0 nonempty=0");
    // (table, for each of 127.0.0.1 / .2 / .3: does the first rule matching that address grant dns-recursion?)
    let tables: [(&str, [bool; 3]); 3] = [
        ("---\nacls:\n - match-subnets: [127.0.0.1/32]\n   apply-access: ['dns-recursion']\n", [true, false, false]),
        ("---\nacls:\n - match-subnets: [127.0.0.2/32]\n   apply-access: ['dns-recursion']\n - match-subnets: [127.0.0.0/8]\n   apply-access: ['http']\n", [false, true, false]),
        ("---\nacls:\n - match-subnets: [127.0.0.1/32]\n   apply-access: ['http']\n - match-subnets: [127.0.0.0/8]\n   apply-access: ['dns-recursion']\n", [false, true, true]),
    ];
    let mut t = Tally::new("listener/tcp-acl-judges-the-peer");
    for (acls, grants) in tables {
        for (k, client) in ["127.0.0.1", "127.0.0.2", "127.0.0.3"].iter().enumerate() {
            let got = tcp_rcode(acls, client).await;
            // (loopback aliases unavailable in this environment: the sample is not judged -- reported as such, never as a failure)
            if let Err(e) = &got { if e.starts_with("bind") || e.starts_with("connect") { println!("VERIF-B-RIG listener/tcp-acl-judges-the-peer unavailable: {}", e); continue; } }
            let ok = match &got { Ok(rc) => (*rc == 5) == !grants[k], Err(_) => false };
            t.check(ok, || format!("ACL table {:?}, TCP client {}: {} (the client's first matching rule {} dns-recursion)", acls.replace('\n', " "), client,
                match &got { Ok(rc) => format!("rcode {}", rc), Err(e) => format!("rig error: {}", e) }, if grants[k] { "grants" } else { "does not grant" }));
        }
    }
    t.done();
}
