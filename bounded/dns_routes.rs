// Engine B, third module: dns::config::parse_dns_route (YAML -> Route; yaml-rust containers and a `collect::<Result<_, _>>()` chain keep
// it outside Verus, the YAML types outside Kani).  Clause checked on the REAL code: the route handed to the router carries EXACTLY the
// configured suffix list -- every entry, in the written order, parsed label by label -- and the configured handler; an entry that is
// not a valid name makes the whole route an error.  The router (unit router, Verus) then decides by longest suffix over that list.
//   routes/suffix-list-kept    every ordered list (with repetition) of 0..=3 suffixes out of { "", com, COM, example.com,
//                              ads.example.com } x { forward, forge-nxdomain }: 312 route fragments
//   routes/bad-suffix-refused  the same lists with one entry replaced by "a..b" (empty label): refused
// Child module of dns::config, compiled only under cfg(test) in the scratch copy.
use super::*;

struct Tally { name: &'static str, evals: u64, fails: u64 }
impl Tally {
    fn new(name: &'static str) -> Self { Tally { name, evals: 0, fails: 0 } }
    fn check(&mut self, ok: bool, witness: impl FnOnce() -> String) {
        self.evals += 1;
        if !ok {
            self.fails += 1;
            if self.fails <= 20 { println!("VERIF-B-FAIL {} :: {}", self.name, witness()); }
        }
    }
    fn done(&self) { println!("VERIF-B {} evaluations={} failures={}", self.name, self.evals, self.fails); }
}

fn labels(s: &str) -> Vec<Vec<u8>> { s.split('.').filter(|l| !l.is_empty()).map(|l| l.as_bytes().to_vec()).collect() }

#[test]
fn verif_routes_contracts() {
    println!("VERIF-B-TABLES total=0 nonempty=0");
    let names = ["", "com", "COM", "example.com", "ads.example.com"];
    let mut lists: Vec<Vec<&str>> = vec![vec![]];
    for a in names { lists.push(vec![a]); for b in names { lists.push(vec![a, b]); for c in names { lists.push(vec![a, b, c]); } } }
    let mut t_keep = Tally::new("routes/suffix-list-kept");
    let mut t_bad = Tally::new("routes/bad-suffix-refused");
    for l in &lists {
        for ty in ["forward", "forge-nxdomain"] {
            let text = format!("domain-suffixes: [{}]\ntype: {}\n", l.iter().map(|s| format!("'{}'", s)).collect::<Vec<_>>().join(", "), ty);
            let docs = yaml::YamlLoader::load_from_str(&text).expect("yaml");
            let got = parse_dns_route("dns-routes", &docs[0]);
            let ok = match &got {
                Ok(Some(r)) => r.suffixes.len() == l.len()
                    && r.suffixes.iter().zip(l.iter()).all(|(d, s)| *d == crate::dns::dnspkt::Domain::from(labels(s).into_iter().map(crate::dns::dnspkt::Label::from).collect::<Vec<_>>()))
                    && matches!((&r.dest, ty), (Handler::Forward(_), "forward") | (Handler::ForgeNxDomain, "forge-nxdomain")),
                _ => false,
            };
            t_keep.check(ok, || format!("route {{domain-suffixes: {:?}, type: {}}} parsed to {:?}", l, ty, got.as_ref().map(|r| r.as_ref().map(|r| &r.suffixes))));
            for k in 0..l.len() {
                let mut l2: Vec<&str> = l.clone();
                l2[k] = "a..b";
                let text = format!("domain-suffixes: [{}]\ntype: {}\n", l2.iter().map(|s| format!("'{}'", s)).collect::<Vec<_>>().join(", "), ty);
                let docs = yaml::YamlLoader::load_from_str(&text).expect("yaml");
                let got = parse_dns_route("dns-routes", &docs[0]);
                t_bad.check(got.is_err(), || format!("route with suffix list {:?} was accepted", l2));
            }
        }
    }
    t_keep.done();
    t_bad.done();
}
