// Engine B, support module for http_list.rs: a DhcpService around an in-memory lease pool (child module of dhcp, so that it can fill the
// private fields), with one lease per given (client identifier, stored option area).  No check of its own.
use super::*;

pub(crate) async fn service(clients: &[(Vec<u8>, Vec<u8>)]) -> Result<(Arc<DhcpService>, Vec<(std::net::Ipv4Addr, Vec<u8>)>), String> {
    let mut p = pool::Pool::new_in_memory().map_err(|e| format!("pool: {:?}", e))?;
    let mut addrs = pool::PoolAddresses::default();
    for i in 100..140u8 { addrs.insert(std::net::Ipv4Addr::new(192, 0, 2, i)); }
    let mut granted = vec![];
    for (cid, opts) in clients {
        let l = p.allocate_address(cid, None, &addrs, pool::DEFAULT_MIN_LEASE, pool::DEFAULT_MAX_LEASE, opts).map_err(|e| format!("allocate: {:?}", e))?;
        granted.push((l.ip, cid.clone()));
    }
    let rawsock = raw::RawSocket::new(raw::EthProto::ALL).map_err(|e| format!("raw socket: {:?}", e))?;
    let listener = UdpSocket::bind(&[std::net::Ipv4Addr::LOCALHOST.with_port(0)]).await.map_err(|e| format!("udp socket: {:?}", e))?;
    Ok((Arc::new(DhcpService {
        netinfo: erbium_net::netinfo::SharedNetInfo::new().await,
        conf: Arc::new(sync::RwLock::new(crate::config::Config::default())),
        rawsock: Arc::new(rawsock),
        pool: Arc::new(sync::Mutex::new(p)),
        serverids: Arc::new(sync::Mutex::new(std::collections::HashSet::new())),
        listener,
    }), granted))
}
