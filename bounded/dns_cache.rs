// Engine B, fifth module: the DNS cache on the REAL code, body-independent (the Verus unit cache proves the map invariant and the hit
// window for the bodies it was written against; HashMap Entry APIs, tokio time and prometheus statics keep a rewritten
// insert_cache_entry outside both verifiers).  Clauses, for every history of 1..=3 insertions under ONE key (each a reply whose records
// carry TTLs out of {0, 1, 5, 600}, the smallest deciding) and every probe offset out of {0, 1, 4, 5, 6, 599, 600, 601} seconds after
// the LAST insertion:
//   cache/hit-window-of-last-insert    get_entry answers from the cache iff offset <= smallest TTL of the reply inserted LAST
//                                      (a refilled slot takes the new lifetime, not the first occupant's)
//   cache/served-ttl-aged-exactly      every TTL served (answer, authority and additional section) = TTL of the last reply - whole seconds elapsed, never wrapped
// plus long-lived entries (TTLs of 1 day, 2 days, 46 days) probed at ages around 65535 s, one day, two days and 46 days.
// Child module of dns::cache, compiled only under cfg(test) in the scratch copy.
use super::*;
use crate::dns::dnspkt::*;

struct Tally { name: &'static str, evals: u64, fails: u64 }
impl Tally {
    fn new(name: &'static str) -> Self { Tally { name, evals: 0, fails: 0 } }
    fn check(&mut self, ok: bool, witness: impl FnOnce() -> String) {
        self.evals += 1;
        if !ok {
            self.fails += 1;
            if self.fails <= 20 { println!("VERIF-B-FAIL {} :: {}", self.name, witness()); }
        }
    }
    fn done(&self) { println!("VERIF-B {} evaluations={} failures={}", self.name, self.evals, self.fails); }
}

fn reply(name: &Domain, ttls: &[u32]) -> Result<DNSPkt, Error> {
    Ok(DNSPkt {
        qid: 1, rd: true, tc: false, aa: false, qr: true, opcode: OPCODE_QUERY, cd: false, ad: false, ra: false, rcode: NOERROR,
        bufsize: 512, edns_ver: Some(0), edns_do: false,
        question: Question { qdomain: name.clone(), qtype: RR_A, qclass: CLASS_IN },
        answer: ttls.iter().map(|t| RR { domain: name.clone(), class: CLASS_IN, rrtype: RR_A, ttl: *t, rdata: RData::Other(vec![192, 0, 2, 1]) }).collect(),
        nameserver: vec![], additional: vec![], edns: None,
    })
}

#[tokio::test]
async fn verif_cache_contracts() {
    println!("VERIF-B-TABLES total=0 nonempty=0");
    let handler = CacheHandler { next: outquery::OutQuery::new(), cache: Arc::new(RwLock::new(Cache::new())) };
    let name: Domain = "example.net".parse().unwrap();
    let ck = CacheKey { qname: name.clone(), qtype: RR_A, edns_do: false, cd: false };
    let shapes: Vec<Vec<u32>> = vec![vec![600], vec![5], vec![1], vec![600, 5], vec![5, 600], vec![600, 600, 1]];
    let mut hist: Vec<Vec<usize>> = vec![];
    for a in 0..shapes.len() { hist.push(vec![a]); for b in 0..shapes.len() { hist.push(vec![a, b]); for c in [0usize, 1, 2] { hist.push(vec![a, b, c]); } } }
    let mut t_win = Tally::new("cache/hit-window-of-last-insert");
    let mut t_ttl = Tally::new("cache/served-ttl-aged-exactly");
    for h in &hist {
        for off in [0u64, 1, 4, 5, 6, 599, 600, 601] {
            let mut cache = Cache::new();
            let mut last = &shapes[0];
            let t0 = Instant::now();
            for s in h {
                let r = reply(&name, &shapes[*s]);
                let expiry = handler.calculate_expiry(&r);
                if expiry > Duration::from_secs(0) { handler.insert_cache_entry(&mut cache, ck.clone(), &r, expiry); }
                last = &shapes[*s];
            }
            let min_ttl = *last.iter().min().unwrap() as u64;
            // the probe instant is measured from a reading taken AFTER the last insertion: the entry is at most a few milliseconds older
            let t1 = Instant::now();
            // (a sample during which the process was stalled for 300 ms or more is not judged: the entry's age would be uncertain)
            if t1 - t0 >= Duration::from_millis(300) { continue; }
            let now = t1 + Duration::from_secs(off);
            let got = match std::panic::catch_unwind(std::panic::AssertUnwindSafe(|| CacheHandler::get_entry(&cache, &ck, now))) {
                Ok(g) => g,
                Err(_) => {
                    t_ttl.check(false, || format!("insertions (TTLs) {:?}, probe {} s after the last one: get_entry PANICKED (TTL subtraction wrapped?)", h.iter().map(|s| &shapes[*s]).collect::<Vec<_>>(), off));
                    continue;
                }
            };
            // at offset == min_ttl the few milliseconds between birth and `now` put the probe just past the window: either answer is right
            if off != min_ttl {
                t_win.check(got.is_some() == (off < min_ttl), || format!("insertions (TTLs) {:?}, probe {} s after the last one: served from cache = {}, smallest TTL of the last reply = {}",
                    h.iter().map(|s| &shapes[*s]).collect::<Vec<_>>(), off, got.is_some(), min_ttl));
            }
            if let Some(Ok(p)) = &got {
                let ok = p.answer.len() == last.len() && p.answer.iter().zip(last.iter()).all(|(rr, t)| (*t as u64) >= off && rr.ttl as u64 == *t as u64 - off);
                t_ttl.check(ok, || format!("insertions {:?}, probe {} s after the last one: served TTLs {:?}, stored TTLs {:?}", h.iter().map(|s| &shapes[*s]).collect::<Vec<_>>(), off,
                    p.answer.iter().map(|r| r.ttl).collect::<Vec<_>>(), last));
            }
        }
    }
    // long-lived entries: ages beyond 16-bit second counts (65535 s = 18 h 12 min) and around one day
    for ttls in [vec![86400u32, 172800, 172801], vec![172800], vec![4000000]] {
        for off in [0u64, 3600, 65534, 65535, 65536, 65537, 70000, 86399, 86401, 172799, 172801, 3999999] {
            let mut cache = Cache::new();
            let r = reply(&name, &ttls);
            let t0 = Instant::now();
            let expiry = handler.calculate_expiry(&r);
            handler.insert_cache_entry(&mut cache, ck.clone(), &r, expiry);
            let t1 = Instant::now();
            if t1 - t0 >= Duration::from_millis(300) { continue; }
            let min_ttl = *ttls.iter().min().unwrap() as u64;
            let now = t1 + Duration::from_secs(off);
            let got = match std::panic::catch_unwind(std::panic::AssertUnwindSafe(|| CacheHandler::get_entry(&cache, &ck, now))) {
                Ok(g) => g,
                Err(_) => { t_ttl.check(false, || format!("TTLs {:?}, probe {} s after insertion: get_entry PANICKED", ttls, off)); continue; }
            };
            if off != min_ttl { t_win.check(got.is_some() == (off < min_ttl), || format!("TTLs {:?}, probe {} s after insertion: served from cache = {}", ttls, off, got.is_some())); }
            if let Some(Ok(p)) = &got {
                let ok = p.answer.len() == ttls.len() && p.answer.iter().zip(ttls.iter()).all(|(rr, t)| (*t as u64) >= off && rr.ttl as u64 == *t as u64 - off);
                t_ttl.check(ok, || format!("TTLs {:?}, probe {} s after insertion: served TTLs {:?}", ttls, off, p.answer.iter().map(|r| r.ttl).collect::<Vec<_>>()));
            }
        }
    }
    // all three sections: the authority and additional records of a cached reply age exactly like its answers
    let rr = |t: u32| RR { domain: name.clone(), class: CLASS_IN, rrtype: RR_A, ttl: t, rdata: RData::Other(vec![192, 0, 2, 1]) };
    for (a, n, d) in [(3600u32, 1800u32, 300u32), (300, 3600, 1800), (1800, 300, 3600), (300, 300, 300)] {
        for off in [0u64, 1, 120, 299, 301] {
            let mut cache = Cache::new();
            let mut r = reply(&name, &[a]);
            if let Ok(p) = r.as_mut() { p.nameserver = vec![rr(n)]; p.additional = vec![rr(d), rr(d + 7)]; }
            let t0 = Instant::now();
            let expiry = handler.calculate_expiry(&r);
            handler.insert_cache_entry(&mut cache, ck.clone(), &r, expiry);
            let t1 = Instant::now();
            if t1 - t0 >= Duration::from_millis(300) { continue; }
            let now = t1 + Duration::from_secs(off);
            let got = match std::panic::catch_unwind(std::panic::AssertUnwindSafe(|| CacheHandler::get_entry(&cache, &ck, now))) {
                Ok(g) => g,
                Err(_) => { t_ttl.check(false, || format!("TTLs answer {} authority {} additional {}, probe {} s after insertion: get_entry PANICKED", a, n, d, off)); continue; }
            };
            t_win.check(got.is_some() == (off < 300), || format!("TTLs answer {} authority {} additional {}, probe {} s after insertion: served from cache = {}", a, n, d, off, got.is_some()));
            if let Some(Ok(p)) = &got {
                let served: Vec<u32> = p.answer.iter().chain(p.nameserver.iter()).chain(p.additional.iter()).map(|r| r.ttl).collect();
                let want: Vec<u32> = [a, n, d, d + 7].iter().map(|t| t - off as u32).collect();
                t_ttl.check(p.answer.len() == 1 && p.nameserver.len() == 1 && p.additional.len() == 2 && served == want,
                    || format!("TTLs answer {} authority {} additional {}/{}, probe {} s after insertion: served (answer, authority, additional) {:?}, expected {:?}", a, n, d, d + 7, off, served, want));
            }
        }
    }
    t_win.done();
    t_ttl.done();
}
