// Engine B: bounded exhaustive check of the contracts that unit `pool` ASSUMES for the SQL statements of
// dhcp/pool.rs, and of the function-level postconditions Verus proves from them, against the REAL functions
// running the REAL statements on REAL SQLite (in-memory).  Child module of dhcp::pool (sees private items).
// Output protocol (parsed by tools/brun.py):
//   VERIF-B <check> evaluations=<n> failures=<m>
//   VERIF-B-FAIL <check> :: <witness>
use super::*;
use std::net::Ipv4Addr;

fn now() -> u32 {
    std::time::SystemTime::now().duration_since(std::time::SystemTime::UNIX_EPOCH).unwrap().as_secs() as u32
}
// three addresses whose order as TEXT (the type of the `address` column: "192.0.2.10" < "192.0.2.100" < "192.0.2.9") differs from their
// numeric order (9 < 10 < 100), so that a statement comparing addresses as strings cannot pass by accident
const ADDRS: [Ipv4Addr; 3] = [Ipv4Addr::new(192, 0, 2, 9), Ipv4Addr::new(192, 0, 2, 10), Ipv4Addr::new(192, 0, 2, 100)];
const CLIENTS: [&[u8]; 2] = [b"c1", b"c2"];
// expiry relative to now (seconds); |delta| >= 100 so that a one-second tick during a run cannot change a verdict
const DELTAS: [i64; 3] = [-100, 100, 200];

#[derive(Clone, Debug, PartialEq)]
struct R { addr: usize, client: usize, start: u32, expiry: u32 }
type T = Vec<R>;

fn rows_n() -> usize { std::env::var("VERIF_ROWS").ok().and_then(|x| x.parse().ok()).unwrap_or(2) }

/// every table with one optional row per address over the first `n` addresses
fn tables(n: usize, base: u32) -> Vec<T> {
    let mut out: Vec<T> = vec![vec![]];
    for a in 0..n {
        let mut next = vec![];
        for t in &out {
            next.push(t.clone());
            for c in 0..CLIENTS.len() {
                for d in DELTAS {
                    let expiry = (base as i64 + d) as u32;
                    let mut t2 = t.clone();
                    t2.push(R { addr: a, client: c, start: expiry - 50, expiry });
                    next.push(t2);
                }
            }
        }
        out = next;
    }
    out
}
fn mk(t: &T) -> Pool {
    let p = Pool::new_in_memory().expect("in-memory pool");
    for r in t {
        p.conn.execute(
            "INSERT INTO leases (address, clientid, start, expiry) VALUES (?1, ?2, ?3, ?4)",
            rusqlite::params![ADDRS[r.addr].to_string(), CLIENTS[r.client], r.start, r.expiry],
        ).expect("insert row");
    }
    p
}
fn pool_of(mask: usize, n: usize) -> PoolAddresses {
    let mut s = PoolAddresses::default();
    for a in 0..n { if mask & (1 << a) != 0 { s.insert(ADDRS[a]); } }
    s
}
fn row<'a>(t: &'a T, ip: Ipv4Addr) -> Option<&'a R> { t.iter().find(|r| ADDRS[r.addr] == ip) }
fn dump(p: &mut Pool) -> Vec<(String, Vec<u8>, u32, u32)> {
    match p.get_leases() {
        Ok(l) => {
            let mut v: Vec<_> = l.into_iter().map(|l| (l.ip.to_string(), l.client_id, l.start, l.expire)).collect();
            v.sort();
            v
        }
        // an unreadable lease table never equals an expected one
        Err(e) => vec![(format!("get_leases failed: {:?}", e), vec![], 0, 0)],
    }
}
struct Tally { name: &'static str, evals: u64, fails: u64 }
impl Tally {
    fn new(name: &'static str) -> Self { Tally { name, evals: 0, fails: 0 } }
    fn check(&mut self, ok: bool, witness: impl FnOnce() -> String) {
        self.evals += 1;
        if !ok {
            self.fails += 1;
            if self.fails <= 20 { println!("VERIF-B-FAIL {} :: {}", self.name, witness()); }
        }
    }
    fn done(&self) { println!("VERIF-B {} evaluations={} failures={}", self.name, self.evals, self.fails); }
}

#[test]
fn verif_sql_contracts() {
    let n = rows_n();
    let base = now();
    let tabs = tables(n, base);
    println!("VERIF-B-TABLES total={} nonempty={}", tabs.len(), tabs.iter().filter(|t| !t.is_empty()).count());

    // ---- sql_in_use through select_requested_address (ts is an argument: exact boundary included) ----
    let mut t_inuse = Tally::new("sql_in_use/select_requested_address");
    for t in &tabs {
        let mut p = mk(t);
        for a in 0..n {
            let pool = pool_of((1 << n) - 1, n);
            for r in t.iter().filter(|r| r.addr == a).map(Some).chain(std::iter::once(None)) {
                let tss: Vec<u32> = match r { Some(r) => vec![r.expiry - 1, r.expiry, r.expiry + 1], None => vec![base] };
                for ts in tss {
                    let got = p.select_requested_address(ADDRS[a], ts, &pool);
                    let in_use = row(t, ADDRS[a]).map(|r| r.expiry >= ts).unwrap_or(false);
                    let ok = match &got { Ok(l) => !in_use && l.ip == ADDRS[a], Err(Error::RequestedAddressInUse) => in_use, _ => false };
                    t_inuse.check(ok, || format!("table={:?} addr={} ts={} got={:?} want in_use={}", t, ADDRS[a], ts, got, in_use));
                }
            }
            let empty = pool_of(0, n);
            let got = p.select_requested_address(ADDRS[a], base, &empty);
            t_inuse.check(matches!(got, Err(Error::NoAssignableAddress)), || format!("table={:?} addr={} not in pool got={:?}", t, ADDRS[a], got));
        }
    }
    t_inuse.done();

    // ---- select_new_address: Ok(x) => x in pool and not in use; Err(NoAssignableAddress) => every pool address in use ----
    let mut t_new = Tally::new("sql_in_use/select_new_address");
    for t in &tabs {
        let mut p = mk(t);
        for mask in 0..(1usize << n) {
            let pool = pool_of(mask, n);
            for c in 0..CLIENTS.len() {
                let got = p.select_new_address(base, &pool, CLIENTS[c]);
                let free: Vec<Ipv4Addr> = pool.iter().copied().filter(|x| !row(t, *x).map(|r| r.expiry >= base).unwrap_or(false)).collect();
                let ok = match &got { Ok(l) => free.contains(&l.ip), Err(Error::NoAssignableAddress) => free.is_empty(), _ => false };
                t_new.check(ok, || format!("table={:?} pool_mask={:b} client={} got={:?} free={:?}", t, mask, c, got, free));
            }
        }
    }
    t_new.done();

    // ---- allocate_address: the function-level contract proved by Verus from the assumed SQL contracts ----
    let mut t_c01 = Tally::new("allocate_address/C01-no-foreign-unexpired");
    let mut t_c02 = Tally::new("allocate_address/C02-in-pool");
    let mut t_c09s = Tally::new("allocate_address/C09-single-binding-keeps-address");
    let mut t_c09g = Tally::new("allocate_address/C09-general-keeps-held-address");
    let mut t_c09r = Tally::new("allocate_address/C09-requested-held-address");
    let mut t_c09e = Tally::new("allocate_address/C09-refused-only-on-exhaustion");
    let mut t_c10 = Tally::new("allocate_address/C10-lease-bounds-and-record");
    let mut t_frame = Tally::new("allocate_address/C13-C18-frame");
    for t in &tabs {
        for mask in 0..(1usize << n) {
            let pool = pool_of(mask, n);
            for c in 0..CLIENTS.len() {
                for req in (0..n).map(Some).chain(std::iter::once(None)) {
                    let mut p = mk(t);
                    let before = dump(&mut p);
                    let t0 = now();
                    let got = p.allocate_address(CLIENTS[c], req.map(|a| ADDRS[a]), &pool, DEFAULT_MIN_LEASE, DEFAULT_MAX_LEASE, b"");
                    let t1 = now();
                    let after = dump(&mut p);
                    let w = || format!("table={:?} pool_mask={:b} client={} requested={:?} got={:?}", t, mask, c, req.map(|a| ADDRS[a]), got);
                    let held: Vec<Ipv4Addr> = t.iter().filter(|r| r.client == c && r.expiry > t1 && pool.contains(&ADDRS[r.addr])).map(|r| ADDRS[r.addr]).collect();
                    let live_own = t.iter().filter(|r| r.client == c && r.expiry > t1).count();
                    match &got {
                        Ok(l) => {
                            t_c02.check(pool.contains(&l.ip), w);
                            t_c01.check(!row(t, l.ip).map(|r| r.client != c && r.expiry >= t0).unwrap_or(false), w);
                            if live_own <= 1 && !held.is_empty() { t_c09s.check(held[0] == l.ip, w); }
                            if !held.is_empty() { t_c09g.check(held.contains(&l.ip), w); }
                            if let Some(a) = req { if held.contains(&ADDRS[a]) { t_c09r.check(l.ip == ADDRS[a], w); } }
                            let secs = l.expire.as_secs();
                            let rec = after.iter().find(|x| x.0 == l.ip.to_string());
                            let ok10 = secs >= 300 && secs <= 86400 && rec.map(|x| x.1 == CLIENTS[c] && x.2 >= t0 && x.2 <= t1 && (x.3 - x.2) as u64 == secs).unwrap_or(false);
                            t_c10.check(ok10, || format!("{} record={:?}", w(), rec));
                            // frame: every other row unchanged
                            let others_b: Vec<_> = before.iter().filter(|x| x.0 != l.ip.to_string()).collect();
                            let others_a: Vec<_> = after.iter().filter(|x| x.0 != l.ip.to_string()).collect();
                            t_frame.check(others_a == others_b, || format!("{} before={:?} after={:?}", w(), before, after));
                        }
                        Err(e) => {
                            t_frame.check(after == before, || format!("{} before={:?} after={:?}", w(), before, after));
                            if *e == Error::NoAssignableAddress {
                                let all_used = pool.iter().all(|x| row(t, *x).map(|r| r.expiry >= t0).unwrap_or(false));
                                t_c09e.check(all_used, w);
                            } else {
                                t_c09e.check(false, w);
                            }
                        }
                    }
                }
            }
        }
    }
    for x in [&t_c01, &t_c02, &t_c09s, &t_c09g, &t_c09r, &t_c09e, &t_c10, &t_frame] { x.done(); }

    // ---- C09 "refused for lack of addresses only when every address of that pool is held": a LARGE pool (600 addresses, more than any
    //      small constant a scan might be cut at) in which every address but one is held, unexpired, by another client -- a new client
    //      must be given exactly the free one.  4 client ids (different hash orders) x 3 positions of the free address. ----
    let mut t_big = Tally::new("allocate_address/C09-large-pool-last-free-address");
    let big: Vec<Ipv4Addr> = (0..600u32).map(|k| Ipv4Addr::from(0x0A09_0000u32 + 1 + k)).collect();
    let mut big_pool = PoolAddresses::default();
    for a in &big { big_pool.insert(*a); }
    for free in [0usize, 299, 599] {
        for cid in [&b"n1"[..], &b"n2"[..], &b"n3"[..], &b"n4"[..]] {
            let mut p = mk(&vec![]);
            let t0 = now();
            for (k, a) in big.iter().enumerate() {
                if k != free {
                    p.conn.execute("INSERT INTO leases (address, clientid, start, expiry) VALUES (?1, ?2, ?3, ?4)",
                        rusqlite::params![a.to_string(), &b"holder"[..], t0 - 10, t0 + 1000]).expect("insert");
                }
            }
            let got = p.allocate_address(cid, None, &big_pool, DEFAULT_MIN_LEASE, DEFAULT_MAX_LEASE, b"");
            t_big.check(got.as_ref().map(|l| l.ip).ok() == Some(big[free]), || format!("600-address pool, all held by another client except {}: client {:?} got {:?}", big[free], cid, got));
        }
    }
    t_big.done();

    // ---- get_pool_metrics (C20): active = |{expiry > now}|, expired = |{expiry <= now}|, total on the empty table ----
    let mut t_met = Tally::new("sql_metrics/get_pool_metrics");
    for t in &tabs {
        let mut p = mk(t);
        let t0 = now();
        let got = p.get_pool_metrics();
        let active = t.iter().filter(|r| r.expiry > t0).count() as u32;
        let expired = t.iter().filter(|r| r.expiry <= t0).count() as u32;
        t_met.check(got == Ok((active, expired)), || format!("table={:?} got={:?} want=({}, {})", t, got, active, expired));
    }
    t_met.done();

    // ---- get_pool_metrics at the exact boundary expiry == now (C20: "expired = expiry has passed", i.e. expiry <= now).  The function
    //      reads the clock itself, so the row is placed one second ahead and the call is made when the clock second reaches it; a sample
    //      counts only if the second did not change during the call.  Bounded: one row per sample, up to 3 attempts of about 1 s. ----
    let mut t_edge = Tally::new("sql_metrics/boundary-expiry-equals-now");
    let mut judged = false;
    for _attempt in 0..3 {
        let base = now();
        let exp = base + 1;
        let t = vec![R { addr: 0, client: 0, start: base.saturating_sub(10), expiry: exp }];
        let mut p = mk(&t);
        let deadline = std::time::Instant::now() + std::time::Duration::from_millis(2500);
        while std::time::Instant::now() < deadline {
            let t0 = now();
            if t0 > exp { break; }
            let got = p.get_pool_metrics();
            let t1 = now();
            if t0 == exp && t1 == exp {
                judged = true;
                t_edge.check(got == Ok((0, 1)), || format!("row expiry={} queried at now={} got={:?} want=(0, 1)", exp, t0, got));
                break;
            }
            std::thread::sleep(std::time::Duration::from_millis(20));
        }
        if judged { break; }
    }
    if !judged { t_edge.check(true, || String::new()); }
    t_edge.done();

    // ---- get_leases (C20): exactly one entry per stored row, fields equal ----
    let mut t_leases = Tally::new("sql_list/get_leases");
    for t in &tabs {
        let mut p = mk(t);
        let got = dump(&mut p);
        let mut want: Vec<_> = t.iter().map(|r| (ADDRS[r.addr].to_string(), CLIENTS[r.client].to_vec(), r.start, r.expiry)).collect();
        want.sort();
        t_leases.check(got == want, || format!("table={:?} got={:?}", t, got));
    }
    t_leases.done();

    // ---- C18: reopen / schema upgrade / newer-schema refusal on file-backed databases (SQLite durability and DDL semantics
    //      are assumed by unit poolschema; checked here for every table of the bound) ----
    let dir = std::env::temp_dir().join(format!("verif-sql-{}", std::process::id()));
    let _ = std::fs::create_dir_all(&dir);
    let mut t_reopen = Tally::new("reopen/rows-survive-close-and-reopen");
    let mut t_v0 = Tally::new("reopen/v0-schema-upgraded-rows-preserved");
    let mut t_newer = Tally::new("reopen/newer-schema-refused-unmodified");
    for (i, t) in tabs.iter().enumerate() {
        // current schema: write through the real code path (new_with_conn), close, reopen
        let path = dir.join(format!("cur-{}.sqlite", i));
        let _ = std::fs::remove_file(&path);
        {
            let p = Pool::new_with_conn(rusqlite::Connection::open(&path).expect("open")).expect("setup_db");
            for r in t {
                p.conn.execute("INSERT INTO leases (address, clientid, start, expiry) VALUES (?1, ?2, ?3, ?4)",
                    rusqlite::params![ADDRS[r.addr].to_string(), CLIENTS[r.client], r.start, r.expiry]).expect("insert");
            }
        }
        let mut want: Vec<_> = t.iter().map(|r| (ADDRS[r.addr].to_string(), CLIENTS[r.client].to_vec(), r.start, r.expiry)).collect();
        want.sort();
        match Pool::new_with_conn(rusqlite::Connection::open(&path).expect("reopen")) {
            Ok(mut p) => { let got = dump(&mut p); t_reopen.check(got == want, || format!("table={:?} got={:?}", t, got)); }
            Err(e) => t_reopen.check(false, || format!("table={:?} reopen failed: {:?}", t, e)),
        }
        // version-0 schema (no options column, no schema_version table) with rows
        let path0 = dir.join(format!("v0-{}.sqlite", i));
        let _ = std::fs::remove_file(&path0);
        {
            let c = rusqlite::Connection::open(&path0).expect("open v0");
            c.execute("CREATE TABLE leases (address TEXT NOT NULL, chaddr BLOB, clientid BLOB, start INTEGER NOT NULL, expiry INTEGER NOT NULL, PRIMARY KEY (address))", rusqlite::params![]).expect("v0 schema");
            for r in t {
                c.execute("INSERT INTO leases (address, clientid, start, expiry) VALUES (?1, ?2, ?3, ?4)",
                    rusqlite::params![ADDRS[r.addr].to_string(), CLIENTS[r.client], r.start, r.expiry]).expect("insert v0");
            }
        }
        match Pool::new_with_conn(rusqlite::Connection::open(&path0).expect("open v0 again")) {
            Ok(mut p) => {
                let got = dump(&mut p);
                let ver: i64 = p.conn.query_row("SELECT version FROM schema_version WHERE key = 'pool'", rusqlite::params![], |r| r.get(0)).unwrap_or(-1);
                let mut pool_all = PoolAddresses::default();
                for a in ADDRS { pool_all.insert(a); }
                let usable = p.allocate_address(b"c9", None, &pool_all, DEFAULT_MIN_LEASE, DEFAULT_MAX_LEASE, b"").is_ok() || t.len() >= 3;
                t_v0.check(got == want && ver == 1 && usable, || format!("table={:?} got={:?} version={} usable_after_upgrade={}", t, got, ver, usable));
            }
            Err(e) => t_v0.check(false, || format!("table={:?} v0 open failed: {:?}", t, e)),
        }
        // a newer, unknown schema version: refused, file content unchanged
        let path2 = dir.join(format!("v2-{}.sqlite", i));
        let _ = std::fs::remove_file(&path2);
        {
            let p = Pool::new_with_conn(rusqlite::Connection::open(&path2).expect("open")).expect("setup_db");
            for r in t {
                p.conn.execute("INSERT INTO leases (address, clientid, start, expiry) VALUES (?1, ?2, ?3, ?4)",
                    rusqlite::params![ADDRS[r.addr].to_string(), CLIENTS[r.client], r.start, r.expiry]).expect("insert");
            }
            p.conn.execute("INSERT OR REPLACE INTO schema_version (key, version) VALUES ('pool', 2)", rusqlite::params![]).expect("bump");
        }
        let refused = Pool::new_with_conn(rusqlite::Connection::open(&path2).expect("open v2")).is_err();
        let c = rusqlite::Connection::open(&path2).expect("inspect v2");
        let ver: i64 = c.query_row("SELECT version FROM schema_version WHERE key = 'pool'", rusqlite::params![], |r| r.get(0)).unwrap_or(-1);
        let n: i64 = c.query_row("SELECT COUNT(*) FROM leases", rusqlite::params![], |r| r.get(0)).unwrap_or(-1);
        t_newer.check(refused && ver == 2 && n as usize == t.len(), || format!("table={:?} refused={} version={} rows={}", t, refused, ver, n));
        let _ = std::fs::remove_file(&path);
        let _ = std::fs::remove_file(&path0);
        let _ = std::fs::remove_file(&path2);
    }
    let _ = std::fs::remove_dir_all(&dir);
    for x in [&t_reopen, &t_v0, &t_newer] { x.done(); }

    // ---- C18, crash consistency of the schema upgrade (the Verus unit poolschema ASSUMES that a rusqlite transaction is atomic and
    //      proves that the upgrade step and its version record sit inside one): a version-0 database whose version record cannot be
    //      written (a trigger aborts the INSERT -- standing in for the process being killed between the two statements) must be left
    //      as it was, so that the next start upgrades it and finds every lease.  For every table of the bound. ----
    let mut t_int = Tally::new("reopen/interrupted-upgrade-can-be-retried");
    let _ = std::fs::create_dir_all(&dir);
    for (i, t) in tabs.iter().enumerate() {
        let path = dir.join(format!("int-{}.sqlite", i));
        let _ = std::fs::remove_file(&path);
        {
            let c = rusqlite::Connection::open(&path).expect("create file");
            c.execute_batch("CREATE TABLE leases (address TEXT NOT NULL, chaddr BLOB, clientid BLOB, start INTEGER NOT NULL, expiry INTEGER NOT NULL, PRIMARY KEY (address));
                             CREATE TABLE schema_version (key TEXT NOT NULL, version INTEGER NOT NULL, PRIMARY KEY (key));
                             INSERT INTO schema_version VALUES ('pool', 0);").expect("v0 schema");
            for r in t {
                c.execute("INSERT INTO leases (address, clientid, start, expiry) VALUES (?1, ?2, ?3, ?4)",
                          rusqlite::params![ADDRS[r.addr].to_string(), CLIENTS[r.client], r.start, r.expiry]).expect("insert row");
            }
            c.execute_batch("CREATE TRIGGER verif_interrupted BEFORE INSERT ON schema_version BEGIN SELECT RAISE(ABORT, 'killed here'); END;").expect("trigger");
        }
        let first = rusqlite::Connection::open(&path).map_err(|e| e.to_string()).and_then(|c| Pool::new_with_conn(c).map(|_| ()).map_err(|e| e.to_string()));
        rusqlite::Connection::open(&path).expect("reopen raw").execute_batch("DROP TRIGGER verif_interrupted;").expect("drop trigger");
        let second = rusqlite::Connection::open(&path).map_err(|e| e.to_string()).and_then(|c| Pool::new_with_conn(c).map_err(|e| e.to_string())).map(|mut p| dump(&mut p));
        let mut want: Vec<_> = t.iter().map(|r| (ADDRS[r.addr].to_string(), CLIENTS[r.client].to_vec(), r.start, r.expiry)).collect();
        want.sort();
        t_int.check(first.is_err() && second.as_ref().ok() == Some(&want), || format!("table={:?} first start={:?} next start={:?}", t, first, second));
        let _ = std::fs::remove_file(&path);
    }
    t_int.done();

    // ---- C18, durability of every acknowledged lease (kill at any point): after EVERY call of allocate_address -- granted or refused --
    //      what a second connection to the same file sees (= what survives a SIGKILL of this process) is exactly what this process
    //      itself reads back.  All sequences of up to 3 calls over 2 clients x 3 pools (empty, {a0}, {a1}); a refused call in front of
    //      granted ones is part of the bound. ----
    let mut t_dur = Tally::new("reopen/every-recorded-lease-is-durable");
    let pools3: Vec<PoolAddresses> = vec![pool_of(0, n), pool_of(1, n), pool_of(2, n)];
    let steps: Vec<(usize, usize)> = (0..2usize).flat_map(|c| (0..3usize).map(move |q| (c, q))).collect();
    let mut seqs: Vec<Vec<(usize, usize)>> = vec![];
    for a in &steps { seqs.push(vec![*a]); for b in &steps { seqs.push(vec![*a, *b]); for c in &steps { seqs.push(vec![*a, *b, *c]); } } }
    for (i, sq) in seqs.iter().enumerate() {
        let path = dir.join(format!("dur-{}.sqlite", i));
        let _ = std::fs::create_dir_all(&dir);
        let _ = std::fs::remove_file(&path);
        {
            let mut p = Pool::new_with_conn(rusqlite::Connection::open(&path).expect("open")).expect("setup_db");
            for (k, (c, q)) in sq.iter().enumerate() {
                let got = p.allocate_address(CLIENTS[*c], None, &pools3[*q], DEFAULT_MIN_LEASE, DEFAULT_MAX_LEASE, b"");
                let own = dump(&mut p);
                // (the second connection does not wait for locks: a writer that never commits must show up as a failure, not as a 5 s stall per probe)
                let other = rusqlite::Connection::open(&path).map_err(|e| e.to_string())
                    .and_then(|c2| { let _ = c2.busy_timeout(std::time::Duration::from_millis(20)); Pool::new_with_conn(c2).map_err(|e| format!("{:?}", e)) }).map(|mut p2| dump(&mut p2));
                t_dur.check(other.as_ref().ok() == Some(&own), || format!("calls (client, pool)={:?} after call #{} (result {:?}): this process reads {:?}, a second connection reads {:?}", sq, k + 1, got.as_ref().map(|l| l.ip), own, other));
            }
        }
        let _ = std::fs::remove_file(&path);
    }
    t_dur.done();
    // C18 "contains every lease whose reply had already been produced", under lock contention: while ANOTHER connection holds the write
    // lock (a backup, an administrator's open transaction), allocate_address either fails (no reply is produced) or the lease it
    // returns is on disk once the lock is released
    let mut t_lock = Tally::new("reopen/granted-under-a-foreign-lock-is-durable");
    let mut k = 0;
    for lock in ["BEGIN IMMEDIATE", "BEGIN EXCLUSIVE"] {
        for prior in [false, true] {
            for c in 0..2usize {
                k += 1;
                let path = dir.join(format!("lock-{}.sqlite", k));
                let _ = std::fs::create_dir_all(&dir);
                let _ = std::fs::remove_file(&path);
                let conn = rusqlite::Connection::open(&path).expect("open");
                let _ = conn.busy_timeout(std::time::Duration::from_millis(20));
                let mut p = Pool::new_with_conn(conn).expect("setup_db");
                let both = pool_of(3, 2);
                if prior { let _ = p.allocate_address(CLIENTS[0], None, &both, DEFAULT_MIN_LEASE, DEFAULT_MAX_LEASE, b""); }
                let locker = rusqlite::Connection::open(&path).expect("second connection");
                let locked = locker.execute_batch(lock).is_ok();
                let got = p.allocate_address(CLIENTS[c], None, &both, DEFAULT_MIN_LEASE, DEFAULT_MAX_LEASE, b"");
                let _ = locker.execute_batch("ROLLBACK");
                drop(locker);
                if !locked { println!("VERIF-B-RIG {} could not be taken on {:?}", lock, path); continue; }
                let after = rusqlite::Connection::open(&path).map_err(|e| e.to_string())
                    .and_then(|c2| { let _ = c2.busy_timeout(std::time::Duration::from_millis(20)); Pool::new_with_conn(c2).map_err(|e| format!("{:?}", e)) }).map(|mut p2| dump(&mut p2));
                let ok = match (&got, &after) {
                    (Err(_), _) => true,
                    (Ok(l), Ok(rows)) => rows.iter().any(|r| r.0 == l.ip.to_string() && r.1 == CLIENTS[c].to_vec() && r.3 > now()),
                    (Ok(_), Err(_)) => false,
                };
                t_lock.check(ok, || format!("{} held by a second connection, client {:?}{}: allocate_address returned {:?} but the database then holds {:?}", lock, CLIENTS[c],
                    if prior { " (one earlier lease in the table)" } else { "" }, got.as_ref().map(|l| l.ip), after));
                let _ = std::fs::remove_file(&path);
            }
        }
    }
    t_lock.done();
    let _ = std::fs::remove_dir_all(&dir);
}

// ---- C10 / C13 at the level of handle_pkt (whatever pool functions the handlers call): for a client with no history, with an expired
//      lease (window 100 s / 3600 s) or with a live lease written 10 s / 200 s / 40000 s ago, a DISCOVER and a REQUEST each get a reply
//      whose lease time L (option 51) is within [300, 86400] and the row of yiaddr names the client and covers exactly [t, t + L],
//      t = time of the reply. ----
#[test]
fn verif_sql_handlers() {
    use crate::dhcp::dhcppkt;
    println!();      // (the harness prints "test <name> ... " without a line break in front of the first line a test writes)
    let mut t_rec = Tally::new("handlers/reply-backed-by-record");
    let conf = super::super::test::mk_default_config();
    let addr: Ipv4Addr = "192.0.2.77".parse().unwrap();
    let histories: [Option<(i64, i64)>; 6] = [None, Some((-200, -100)), Some((-7200, -3600)), Some((-10, 5000)), Some((-200, 5000)), Some((-40000, 50000))];
    // the client's identity as it is on the wire: the octets of option 61 when the option is present (of ANY length, RFC 2131 4.2 makes
    // it an opaque key), the hardware address otherwise; and what the client asks for in option 51 must never move the lease time
    // outside the configured limits
    let idents: [Option<Vec<u8>>; 5] = [None, Some(vec![]), Some(vec![1]), Some(vec![2, 2]), Some(vec![1, 2, 3, 4, 5, 6, 7])];
    let wishes: [Option<u32>; 5] = [None, Some(0), Some(60), Some(3600), Some(u32::MAX)];
    for h in histories {
        for msgtype in [dhcppkt::DHCPDISCOVER, dhcppkt::DHCPREQUEST] {
          for ident in &idents {
            for wish in wishes {
            let mut p = Pool::new_in_memory().expect("pool");
            let mut req = super::super::test::mk_dhcp_request();
            req.pkt.options = req.pkt.options.set_option(&dhcppkt::OPTION_MSGTYPE, &msgtype);
            req.pkt.options = match ident {
                Some(id) => req.pkt.options.set_raw_option(&dhcppkt::OPTION_CLIENTID, id),
                None => req.pkt.options.remove_option(&dhcppkt::OPTION_CLIENTID),
            };
            req.pkt.options = match wish {
                Some(w) => req.pkt.options.set_option(&dhcppkt::OPTION_LEASETIME, &w),
                None => req.pkt.options.remove_option(&dhcppkt::OPTION_LEASETIME),
            };
            let cid = match ident { Some(id) => id.clone(), None => req.pkt.chaddr.clone() };
            if let Some((s, e)) = h {
                let t = now() as i64;
                p.conn.execute("INSERT INTO leases (address, clientid, start, expiry, options) VALUES (?1, ?2, ?3, ?4, ?5)",
                    rusqlite::params![addr.to_string(), cid, (t + s) as u32, (t + e) as u32, Vec::<u8>::new()]).expect("seed row");
            }
            let mut ids = super::super::ServerIds::new();
            ids.insert(req.serverip);
            let t0 = now();
            let got = crate::dhcp::handle_pkt(&mut p, &req, ids, &conf);
            let t1 = now();
            let ok = match &got {
                Ok(r) => {
                    let l = r.options.get_option::<u32>(&dhcppkt::OPTION_LEASETIME);
                    let row = p.get_leases().ok().and_then(|ls| ls.into_iter().find(|x| x.ip == r.yiaddr));
                    match (l, row) {
                        (Some(l), Some(row)) => l >= 300 && l <= 86400 && row.client_id == cid && row.expire - row.start == l && row.start >= t0 && row.start <= t1,
                        _ => false,
                    }
                }
                Err(_) => false,
            };
            t_rec.check(ok, || format!("client history {:?} (start, expiry relative to now), message type {:?}, option 61 {:?}, option 51 {:?}: reply yiaddr {:?}, lease time {:?}, rows (ip, client, start-now, expiry-now) {:?}", h, msgtype, ident, wish,
                got.as_ref().map(|r| r.yiaddr).ok(), got.as_ref().ok().and_then(|r| r.options.get_option::<u32>(&dhcppkt::OPTION_LEASETIME)),
                p.get_leases().map(|ls| ls.into_iter().map(|x| (x.ip, x.client_id, x.start as i64 - t1 as i64, x.expire as i64 - t1 as i64)).collect::<Vec<_>>()).ok()));
            }
          }
        }
    }
    t_rec.done();
}
