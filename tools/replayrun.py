#!/usr/bin/env python3
"""./check <id> --replay <file>: re-run the ONE obligation a replay file names against /repo's current working tree.

The replay file (written by ./check when it reports a violation) carries `property:` and `obligation:` lines.  The obligation name
says which engine owns it:
  <unit>::<function>            engine V: the unit is extracted and verified again, only that function is judged
  kani::<set>::<harness>        engine K: that harness is run again (a counterexample is played back natively)
  sqlB::<check> / B::<check>    engine B: the module holding that check is run again on the real code
Exit 1 and print `VIOLATION property=<id> replay=<file> obligation=<name>` if the obligation still fails, exit 0 and print
`REPLAY property=<id> obligation=<name> holds on the current tree` if it does not, exit 2 if it cannot be decided."""
import os
import re
import sys

import registry

B_PREFIX = {"opts/": "opts", "routes/": "routes", "policy/": "policy", "cache/": "cache", "policy-addresses/": "dhcpcfg", "policy-options/": "dhcpcfg",
            "radv-wire/": "radv", "ratelimit/": "ratelimit", "listener/": "listener", "http/": "http", "wire/": "wire"}


def run(prop, path, scratch):
    text = open(path).read()
    m = re.search(r"^obligation:\s*(\S+)", text, re.M)
    if not m:
        print("replay file %s names no obligation" % path)
        return 2
    ob = m.group(1)
    tier = os.environ.get("VERIF_TIER", "quick")
    if ob.startswith("kani::"):
        _, kset, harness = ob.split("::", 2)
        task = dict(engine="kani", sets=[kset], only=[harness])
        want = lambda name: name == ob
    elif ob.startswith("sqlB::") or ob.startswith("B::"):
        name = ob.split("::", 1)[1]
        module = "pool"
        if ob.startswith("B::"):
            module = next((v for k, v in B_PREFIX.items() if name.startswith(k)), None)
            if module is None:
                print("replay: no engine-B module owns %s" % ob)
                return 2
        task = dict(registry.POOL_B, checks=[name]) if module == "pool" else dict(engine="sql", module=module, checks=[name])
        want = lambda n: n == ob
    else:
        unit = ob.split("::", 1)[0]
        task = dict(engine="verus", unit=unit, fns=[ob.split("::", 1)[1]])
        want = lambda n: n == ob
    # tier: a thorough-only harness must be reachable
    r = registry.run_task(prop, task, "thorough" if tier == "thorough" else "quick", scratch, 0)
    obs = [o for o in r.get("obligations", []) if want(o["name"])]
    if not obs and tier != "thorough":
        r = registry.run_task(prop, task, "thorough", scratch, 0)
        obs = [o for o in r.get("obligations", []) if want(o["name"])]
    if not obs:
        print("REPLAY-UNDECIDED property=%s obligation=%s: %s" % (prop, ob, r.get("undecided_reason") or "the obligation was not generated on the current tree"))
        return 2
    if all(o["ok"] for o in obs):
        print("REPLAY property=%s obligation=%s holds on the current tree" % (prop, ob))
        return 0
    for f in r.get("failures", []):
        if f.get("obligation") == ob:
            w = f.get("rendered") or f.get("witness") or f.get("message") or ""
            print("  %s" % str(w)[:600])
    cex = any(f.get("obligation") == ob and f.get("witness") for f in r.get("failures", []))
    print("VIOLATION property=%s replay=%s obligation=%s%s" % (prop, path, ob, "" if cex else " no-failing-input-found"))
    return 1
