#!/bin/bash
# run every claimed check (quick tier) on the current tree, a few at a time; print one line each
cd /verif
TIER=${1:-quick}
ids=$(python3 -c "import json;print(' '.join(c['property_id'] for c in json.load(open('MANIFEST.json'))['checks']))")
mkdir -p /root/scratch/runall
for p in $ids; do
  ( ./check $p --tier $TIER > /root/scratch/runall/$p.out 2>&1; echo "$p exit=$? $(tail -1 /root/scratch/runall/$p.out | cut -c1-160)" ) &
  while [ $(jobs -r | wc -l) -ge 4 ]; do sleep 1; done
done
wait
grep -h -E "^VIOLATION|^UNDECIDED|^KNOWN" /root/scratch/runall/*.out
python3-vt tools/validate.py
