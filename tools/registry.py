"""Which engine tasks decide which property.  One entry per claimed property.

task kinds:
  dict(engine="verus", unit=<contracts/<unit>.vc>, fns=[...]|None)
      fns = the functions/lemmas of the unit this property claims (None = every one
      whose `@@ spec ... props` tag names the property, or all if untagged)
  dict(engine="kani", set=<kani/<set>.py>, harnesses=[...], tier=...)
  dict(engine="sql",  ...)   engine B
"""
import os
import sys

HERE = os.path.dirname(os.path.abspath(__file__))
sys.path.insert(0, HERE)
import vrun  # noqa: E402

GLOBAL_TRUSTED = [
    "Verus 0.2026.09.13 + Z3 (SMT back end), rustc front end",
    "vstd specifications of std items",
    "extractor tools/extract.py and its rewrite rules R1-R12 (assembled file kept for audit when --keep)",
]

PROPS = {}


def prop(pid, tasks, **kw):
    PROPS[pid] = dict(tasks=tasks, **kw)


# ---------------------------------------------------------------------------------------------
prop("C16", [
    dict(engine="verus", unit="bucket"),
    dict(engine="verus", unit="cookies"),
    dict(engine="kani", sets=["dns_bucket"]),
    # hash_ip deterministic (assumed by unit bucket) and its consequence, the per-source bound, on the real limiter
    dict(engine="sql", module="ratelimit", domain="hash_ip on 40 addresses x 2 seeds x 4 calls; 2000 back-to-back requests of cost 1/10/50/100 from one address (6 addresses)"),
], explanation="token bucket contracts (check/deplete) against avail(); rate-bound and quiet-client lemmas over the contracts; a source always maps to the same two buckets (bounded, real code)",
    assumptions=["clock readings satisfy 50 <= now <= 0xF0000000 (trait Clock::now ensures, assumed)",
                 "deplete is evaluated at the same clock reading as the check that granted it (single task; read-then-write race not modelled)"])


POOL_B = dict(engine="sql", rows_quick=2, rows_thorough=3)
prop("C01", [
    dict(engine="verus", unit="pool"),
    # whose lease it is: the identity the handlers key the lease on (real DhcpOptions::get_clientid / Dhcp::get_client_id)
    dict(engine="verus", unit="dhcpgetters", fns=["DhcpOptions::get_clientid", "Dhcp::get_client_id", "parse_into_bytes"]),
    # every SQL stub contract the C01 proof rests on: in-use test, the client's own rows (via the C09 checks), and the upsert
    # (allocate_address/C10: the row written names the requesting client with the reply's window; C13: nothing else changes)
    # ... "and a server restart": what was recorded is what the restarted server finds (durability of every recorded lease)
    dict(POOL_B, checks=["sql_in_use", "select_new_address", "allocate_address/C01", "allocate_address/C09", "allocate_address/C10", "allocate_address/C13",
                         "reopen/rows-survive-close-and-reopen", "reopen/every-recorded-lease-is-durable",
                         # whose lease it is: the record behind a reply names the client as identified on the wire (option 61 of any length, else chaddr)
                         "handlers/reply-backed-by-record"]),
], explanation="allocate_address never grants an address on which another client has an unexpired row; lemma over that contract; SQL contracts bounded on real SQLite",
    assumptions=["pool mutex: handlers verified as a single task (true interleaving not modelled)",
                 "wall clock monotone and below 0xF0000000 (Pool::verif_now stub)",
                 "SQL statement contracts are assumed by the proof; engine B checks them only within its bound"])
prop("C09", [
    dict(engine="verus", unit="pool", fns=["Pool::select_requested_address", "Pool::select_new_address", "Pool::select_address", "Pool::allocate_address"]),
    dict(engine="verus", unit="dhcphandlers", fns=["handle_request", "handle_discover"]),
    # (the record written for a grant names the client: it is what "holds" means for the next message -- allocate_address/C10, C13 frame)
    dict(POOL_B, checks=["sql_in_use", "allocate_address/C09", "allocate_address/C10", "allocate_address/C13"]),
    # which option names the address the client asks for (real get_address_request = option 50)
    dict(engine="verus", unit="dhcpgetters", fns=["parse_into_ip4", "DhcpOptions::get_address_request"]),
], explanation="select_address: a held in-pool address is kept (requested one first); refusal only on exhaustion",
    assumptions=["SQL statement contracts assumed; engine B bounded", "Display/FromStr of Ipv4Addr are inverse on canonical text (axioms)"])
prop("C10", [
    dict(engine="verus", unit="dhcphandlers", fns=["handle_discover", "handle_request", "handle_pkt", "Pool::allocate_address", "Pool::select_address"]),
    dict(engine="verus", unit="dhcpgetters", fns=["parse_into_ip4", "parse_into_msgtype", "parse_into_bytes", "parse_into_u8"]),
    dict(POOL_B, checks=["allocate_address/C10", "handlers/reply-backed-by-record"]),
], explanation="OFFER and ACK carry option 51 = recorded expiry - start, within [300, 86400] (defaults), record starts at the reply time",
    assumptions=["policies cannot change min/max lease (apply_policies frame, assumed here)", "ResponseOptions / DhcpOptions accessor contracts assumed in unit dhcphandlers (HashMap glue)"])
prop("C13", [
    dict(engine="verus", unit="dhcphandlers", fns=["handle_discover", "handle_request", "handle_pkt", "Pool::allocate_address"]),
    dict(engine="verus", unit="dhcpgetters", fns=["parse_into_ip4", "parse_into_msgtype", "parse_into_bytes", "parse_into_u8", "DhcpOptions::get_serverid", "DhcpOptions::get_messagetype"]),
    # "a request that matches no configured pool is not answered": which policies a request matches (all conditions of a policy must hold)
    dict(engine="verus", unit="policy", fns=["check_policy", "check_policies", "apply_policy", "apply_policies"]),
    dict(POOL_B, checks=["allocate_address/C13", "handlers/reply-backed-by-record"]),
], explanation="dispatch on message type, foreign server-id refused before any pool access, errors leave the table unchanged, a reply touches only the row of yiaddr and echoes xid/chaddr/giaddr/flags; "
               "a request is served from a policy only if every condition of that policy holds (unit policy), no policy => NoPolicyConfigured / NoLeasesConfigured, nothing written",
    assumptions=["ResponseOptions / DhcpOptions accessor contracts assumed in unit dhcphandlers (HashMap glue); the DhcpParse impls behind them are proved in unit dhcpgetters"])
prop("C17", [
    dict(engine="verus", unit="raser", fns=["serialise_router_advertisement", "clamp_u16", "clamp_u32", "prefix_mask", "pref64_plc", "pref64_prefixlen",
                                             "Serialise::serialise", "Serialise::len"]),
    dict(engine="kani", sets=["radv_ser"]),
    # the variable-length option arms on the real encoder, body-independent (CBMC cannot take the function)
    dict(engine="sql", module="radv", domain="captive-portal URLs of every length 0..=2050; 510 DNS search lists (1..3 names of 1..3 labels of 1/7/63 octets); 0..=130 recursive DNS servers"),
    # what goes into the advertisement: tri-state defaults, $self6, prefixes, header fields; discharges the serialiser's precondition
    dict(engine="verus", unit="rabuild", fns=["RaAdvService::build_announcement_pure", "NDOptions::add_option"]),
    # "null suppressing an option" at the loader: tri-state keys of an interface (R9 slices of parse_interface arms)
    dict(engine="verus", unit="configleaf", fns=["ConfigValue::from_option", "ConfigValue::unwrap_or", "ConfigValue::or", "ConfigValue::as_ref", "ConfigValue::base_default",
                                                  "ConfigValue::always_unwrap_or", "ConfigValue::apply_default", "arm_captive_portal", "arm_lifetime", "parse_duration", "parse_string"]),
], explanation="the octets produced by icmppkt::serialise_router_advertisement equal, for every RtrAdvertisement value and any number of options, the RFC 4861/8106/8781/8910 encoding of the (clamped) values; message length a multiple of 8; each option 8 x its length octet long",
    assumptions=["the six SerialiseInto impls append exactly the big-endian octets (assumed in Verus; checked by the Kani set radv_ser: scalars and Ipv6Addr complete, byte slices / str bounded to 3 / 2 octets)",
                 "str operations of the DNSSL arm (strip_suffix, split('.'), len, dnssl_name_ok's iterator chain) and slice::chunks are opaque stubs with their std meaning (split: labels and dots add up to the name)",
                 "SourceLLAddr options fill whole 8-octet units (precondition; the only producer, build_announcement_pure, passes a 6-octet Ethernet address -- type [u8; 6])",
                 "build_announcement (async, netinfo: choice of the interface address and MTU) and the YAML loader of radv/config.rs beyond the sliced tri-state arms are not under contract",
                 "ConfigValue::{unwrap_or, always_unwrap_or} and `.as_ref().or(..)` are stubs with their match-table meaning in unit rabuild (Clone structural)"])

prop("C18", [
    dict(engine="verus", unit="poolschema"),
    dict(engine="verus", unit="pool", fns=["Pool::allocate_address"]),
    dict(POOL_B, checks=["reopen/", "allocate_address/C13"]),
], explanation="setup_db: rows preserved, ends at version 1, newer version refused before any write; allocate_address: exactly one write, after every error return; reopen/upgrade on file-backed SQLite bounded",
    assumptions=["SQLite durability/atomicity of an autocommitted statement (kill-at-any-instant is NOT decided)", "DDL statements preserve rows (assumed; engine B bounded)"])
prop("C19", [
    dict(engine="verus", unit="configleaf"),
    dict(engine="verus", unit="dhcpranges", fns=["apply_subnet_hosts", "default_pool_hosts", "apply_range_hosts"]),
    dict(engine="verus", unit="router", fns=["DnsRouteHandler::handle_query"]),
    dict(engine="kani", sets=["net_subnet", "config_prefix"]),
], explanation="leaf parsers total (no unwrap/index/overflow) for all inputs; values the loader can produce are safe for the handlers that consume them (prefix arithmetic, host ranges, empty forward route)",
    assumptions=["yaml-rust's loader and the big key-dispatch match of load_config_from_string are not under contract (external parser; closure/iterator heavy)",
                 "str_prefix*/parse_routes/parse_prefix error paths repaired by fix commits but their bodies (split/parse/collect chains) are not under contract"])
prop("C20", [
    dict(engine="verus", unit="httpd", fns=["lease_entries", "json_string", "publish_gauges"]),
    dict(POOL_B, checks=["sql_metrics", "sql_list"]),
    # the document itself, on the real serve_leases (body-independent: also judges a rewritten rendering chain)
    dict(engine="sql", module="http", domain="stores of 0, 1, 3 and 5 leases; client identifiers of 0, 1, 2, 6 and 255 octets x host names absent / plain / quote+backslash / every control character / non-ASCII, plus stored option areas that do not decode (37 listings)"),
], explanation="listing: one formatted entry per row returned by get_leases (Verus, slice of serve_leases); gauge query and listing query against the row set, bounded exhaustive on real SQLite",
    assumptions=["JSON validity is decided for the host name (json_string, every input string); the other fields are an Ipv4Addr, hex digits and integers rendered by core::fmt (outside Verus): their text and the punctuation of the surrounding format strings are NOT decided",
                 "format!(\"\\\\u{:04x}\", n) for n < 0x20 yields \\u followed by four lower-case hex digits (assumed)",
                 "update_metrics: the two prometheus gauges are stubs that know which one they are; that DHCP_ACTIVE_LEASES / DHCP_EXPIRED_LEASES are registered under the documented names is not decided"])

prop("C02", [
    dict(engine="verus", unit="dhcpranges"),
    dict(engine="verus", unit="dhcpused"),
    dict(engine="verus", unit="pool", fns=["Pool::select_requested_address", "Pool::select_new_address", "Pool::select_address", "Pool::allocate_address"]),
    dict(engine="verus", unit="dhcphandlers", fns=["handle_discover", "handle_request", "Pool::allocate_address", "Pool::select_address"]),
    dict(engine="verus", unit="policy", fns=["check_policy", "check_policies", "apply_policy", "apply_policies"]),
    dict(engine="kani", sets=["net_subnet"]),
    dict(POOL_B, checks=["allocate_address/C02"]),
    # the glue the range slices assume: a policy's address set is the union of all its address keys, in any order, minus sub-policy reservations
    dict(engine="sql", module="dhcpcfg", checks=["policy-addresses/"], domain="every non-empty subset of {apply-address, apply-range, apply-subnet} in every key order, with and without a reserving sub-policy (30 fragments); 3 range end cases"),
    # which sibling's address set is selected, body-independent (also judges a rewritten apply_policies)
    dict(engine="sql", module="policy", checks=["policy/first-matching-sibling-wins"], domain="1..=3 sibling policies, flat and under a match-all parent, every subset of them matching (28 cases)"),
], explanation="pool membership before every grant (allocate_address ensures; handle_discover/handle_request: yiaddr lies in the set the policies selected), which policy's set is selected (first applicable sibling: unit policy), apply-subnet expansion == every host address, default addresses pool == hosts minus server minus used",
    assumptions=["apply-range: the RangeInclusive for-loop is verified in the loop form of rule R21 (this vstd has no ghost iterator for RangeInclusive)", "YAML text -> values (yaml-rust) not under contract",
                 "the address arithmetic base == network() and get_or_insert_with glue around the slices is assumed (slice preconditions)"])

prop("C03", [
    # (run_tcp_reply: "never dropped" on the transport that has room -- what is written to a TCP client is the reply encoded with the TCP limit)
    dict(engine="verus", unit="dnsreply", fns=["DnsListenerHandler::create_in_reply", "run_tcp_reply"]),
    dict(engine="verus", unit="dnsser", fns=["push_rr", "push_u16", "push_u32", "push_label", "push_str", "make_edns_opt", "EdnsData::push_opt", "lemma_record_roundtrip", "lemma_rr_tail"]),
    # the upstream reply as decoded: header bits, the response code's upper bits from the first version-0 OPT record, every record field
    dict(engine="verus", unit="dnsparse", fns=["PktParser::get_dns", "PktParser::get_rr", "PktParser::get_rdata", "PktParser::get_type", "PktParser::get_class", "PktParser::get_u32", "PktParser::get_u16", "PktParser::get_u8", "PktParser::get_bytes", "PktParser::get_string", "PktParser::get_domain", "PktParser::get_domain_into", "PktParser::get_question", "EdnsParser::get_options", "EdnsParser::get_option", "EdnsParser::get_u16", "EdnsParser::get_u8", "EdnsData::set_opt", "Label::from_vec", "Domain::from_labels"]),
    dict(engine="verus", unit="outq", fns=["create_outquery", "OutQuery::handle_query_internal"]),
    # "the upstream reply" is the reply to THIS question: a reply served from the cache was obtained for a query with the same
    # name, type, DO and CD bits in class IN (other classes never use the map), aged and otherwise unchanged
    dict(engine="verus", unit="cache", fns=["CacheHandler::handle_query", "CacheHandler::get_entry", "clone_with_ttl_decrement_out_reply", "clone_out_reply"]),
    dict(engine="verus", unit="dnsttl"),
    # "TTLs only ever reduced by the time spent in the cache": no wrap, which rests on the cache lifetime being the smallest TTL of ALL sections
    dict(engine="kani", sets=["dns_ttl"]),
    dict(engine="sql", module="cache", domain="as for C06"),
], explanation="create_in_reply: the client reply is the upstream reply under the client's id and question, for any number of records; "
               "push_rr: every name is written with the base offset of the buffer it is written into (emission-point precondition of the compression dictionary)")

prop("C04", [
    dict(engine="verus", unit="dnsser"),
    dict(engine="verus", unit="dnsreply", fns=["DnsListenerHandler::prepare_to_send", "run_udp_reply", "run_tcp_reply", "DnsListenerHandler::recv_in_query",
                                               "DnsListenerHandler::create_in_error", "DnsListenerHandler::create_in_reply", "DnsListenerHandler::build_dns_message"]),
    dict(engine="verus", unit="acl", fns=["DnsAclHandler::handle_query"]),
    dict(engine="verus", unit="router", fns=["DnsRouteHandler::handle_query"]),
    dict(engine="verus", unit="cache", fns=["CacheHandler::handle_query", "CacheHandler::get_entry", "CacheHandler::insert_cache_entry", "clone_with_ttl_decrement_out_reply", "clone_out_reply"]),
    dict(engine="verus", unit="outq", fns=["OutQuery::handle_query", "OutQuery::handle_query_internal", "TcpNameserver::handle_reply", "TcpNameserver::send_tcp_reply", "udp_decode"]),
    dict(engine="verus", unit="dnsparse", fns=["PktParser::get_dns", "PktParser::get_domain", "PktParser::get_domain_into", "PktParser::get_rr", "PktParser::get_rdata"]),
    # encoder and decoder together on whole structured messages, body-independent (also judges a rewritten serialise_with_size)
    dict(engine="sql", module="wire", checks=["wire/size-limit"], domain="14 structured messages of 1..400 records x limits 512, 513, 600, 1232, 4096, full-1, full, full+1, 65535 (138 cases)"),
], explanation="size-limited serialiser contract (length <= limit for every message the decoder can produce: names <= 255 octets); per-transport limit and TCP framing as emission-point preconditions; advertised size floor 512 in the decoder",
    assumptions=["push_compressed_domain (LinkedList dictionary, outside Verus) appends at least one and at most labels+1 octets: assumed contract, checked bounded by the Kani set dns_compress (exact output lengths asserted)",
                 "what the handler chain behind the listener returns is a decoded message or one of the client-facing errors (chain_ok, stub of DnsAclHandler::handle_query in unit dnsreply): "
                 "proved for the decoder (any message of <= 65536 octets decodes to one the encoder accepts: names <= 255 octets, >= 11 octets per record so the 16-bit counts fit), "
                 "for the listener (recv_in_query, create_in_reply, create_in_error), pass-through for the ACL layer, the router (answers come from the resolver below), the cache (map invariant: stored answers are accepted by the encoder; ageing preserves that) "
                 "and the upstream layer (both decode sites read at most 65536 octets; handle_query maps every error to OutReply). Each layer restates the contract of the one below on a stub: the composition is by matching those restatements, "
                 "not by one whole-program proof; the tokio channels between the upstream TCP connection task and the waiting query are assumed to deliver what was sent"])

prop("C05", [
    dict(engine="verus", unit="dnsparse"),
    dict(engine="verus", unit="pktbuf"),
    dict(engine="verus", unit="icmpparse", fns=["parse", "parse_nd_rtr_options", "parse_nd_rtr_solicit", "parse_nd_rtr_advert", "pref64_prefixlen", "NDOptions::add_option"]),
    dict(engine="verus", unit="dhcpparse"),
    dict(engine="verus", unit="dnsser", fns=["push_u16", "push_u32", "push_label", "push_str", "make_edns_opt", "EdnsData::push_opt", "push_rr", "DNSPkt::serialise", "DNSPkt::serialise_with_size"]),
    dict(engine="verus", unit="dhcphandlers", fns=["to_array", "handle_pkt", "handle_discover", "handle_request", "Pool::allocate_address", "Pool::select_address", "Pool::select_new_address", "Pool::select_requested_address"]),
    # served-from-cache path: `x.ttl - decrement` cannot underflow (precondition of clone_with_ttl_decrement discharged from the
    # cache invariant, which rests on get_expiry == min TTL, checked bounded by Kani)
    dict(engine="verus", unit="cache", fns=["CacheHandler::get_entry", "CacheHandler::insert_cache_entry", "CacheHandler::calculate_expiry", "CacheHandler::handle_query", "clone_with_ttl_decrement_out_reply", "clone_out_reply"]),
    dict(engine="verus", unit="dnsttl"),
    # the listener around the decoders: the four unreachable!() arms of create_in_error, the unwraps of the reply paths
    dict(engine="verus", unit="dnsreply", fns=["DnsListenerHandler::recv_in_query", "DnsListenerHandler::create_in_error", "DnsListenerHandler::create_in_reply",
                                               "DnsListenerHandler::build_dns_message", "run_udp_reply", "run_tcp_reply"]),
    dict(engine="verus", unit="outq", fns=["TcpNameserver::send_tcp_query", "TcpNameserver::send_tcp_reply", "create_outquery", "TcpNameserver::handle_reply", "udp_decode",
                                           "OutQuery::handle_query_internal", "OutQuery::handle_query", "TcpNameserver::read_reply"]),
    dict(engine="kani", sets=["net_subnet", "dns_ttl", "dhcp_ints"]),
], explanation="no-panic / no-overflow / in-bounds / termination of the network-facing decoders and of the handlers around them, for all byte strings of all lengths",
    assumptions=["async handlers are verified as a single task; process-level liveness ('still answers the next request') is not decided, only its in-process cause (a panic)"])

prop("C06", [
    dict(engine="verus", unit="cache"),
    dict(engine="verus", unit="dnsttl"),
    dict(engine="kani", sets=["dns_ttl"]),
    # the same clauses on the real code, body-independent (also judges a rewritten insert_cache_entry / get_entry)
    dict(engine="sql", module="cache", domain="every history of 1..=3 insertions under one key (6 reply shapes with TTLs out of {1, 5, 600}) x 8 probe offsets around the TTL boundaries (1050 + 479 evaluations)"),
], explanation="cache map invariant (lifetime <= smallest TTL), hit window, exact key, exact TTL ageing",
    assumptions=["tokio::time::Instant/Duration modelled with a nanosecond view; Instant - Instant saturates at zero (std semantics)",
                 "RwLock<Cache> seen by one task at a time (lock invariant = map invariant); no interleaving modelled",
                 "DNSPkt::get_expiry contract assumed by unit cache; checked only bounded (Kani dns_ttl shapes)"])

prop("C14", [
    dict(engine="verus", unit="dnsser", fns=["lemma_header_roundtrip", "lemma_record_roundtrip", "lemma_rr_tail", "DNSPkt::serialise", "DNSPkt::serialise_with_size", "push_rr", "push_label", "push_str", "push_u16", "push_u32", "make_edns_opt", "EdnsData::push_opt"]),
    dict(engine="verus", unit="dnsparse", fns=["PktParser::get_dns", "PktParser::get_domain", "PktParser::get_domain_into", "PktParser::get_rr", "PktParser::get_rdata", "PktParser::get_type", "PktParser::get_class", "PktParser::get_u32", "PktParser::get_u16", "PktParser::get_u8", "PktParser::get_bytes", "PktParser::get_string",
                                               "EdnsParser::get_options", "EdnsParser::get_option", "EdnsParser::get_u16", "EdnsParser::get_u8", "EdnsData::set_opt", "Label::from_vec", "Domain::from_labels",
                                               "PktParser::get_question", "lemma_pointer_budget_covers_every_name", "lemma_enc_opts_prefix", "lem_be16_bytes"]),
    dict(engine="kani", sets=["dns_compress"]),
    # bounded stand-in for the whole-message round trip (compression dictionary outside both verifiers)
    dict(engine="sql", module="wire", checks=["wire/roundtrip-structured"], domain="20 structured messages: 1..1000 records of 8 kinds in three sections, names sharing suffixes at every depth, with/without EDNS options, > 16 KiB, exactly 65534 and 65535 octets"),
], explanation="(a) header/flag bits: encoder contract (octets 2,3 = flag1_of/flag2_of) and decoder contract (fields = bit tests on octets 2,3) compose to the identity (lemma, all messages); "
               "(b) what the decoder accepts the encoder can encode (pkt_wf) and the encoder's counts/size contract; (b') one record: after the owner name the encoder writes type, class, TTL, an RDLENGTH that counts the rdata it wrote and opaque rdata verbatim, "
               "and the decoder reads exactly those fields back (lemma_record_roundtrip over both contracts); (c) compression pointers: BOUNDED Kani on the real push_compressed_domain/push_prefix",
    assumptions=["decode(encode(m)) == m for whole messages is NOT decided: it needs the suffix-tree invariant of push_prefix (LinkedList, &mut Option<&mut ..> re-borrows: outside Verus) unbounded",
                 "compression harnesses are bounded: names of <= 2 one-octet labels, two pushes, four shapes, base offset symbolic over 0..=65535 (and >= 16384 up to usize::MAX-64 for the never-a-pointer case)",
                 "structured record data (names inside CNAME/NS/PTR/MX/SOA/.., NAPTR strings, SOA counters) is proved append-only with a consistent RDLENGTH, not octet-exact against the decoder; owner names depend on the compression dictionary (bounded only)"])

prop("C15", [
    dict(engine="verus", unit="router"),
    # the route table the router decides over is the configured one: parse_dns_route keeps every suffix, in order (real code, bounded)
    dict(engine="kani", sets=["dns_suffix"]),
    dict(engine="sql", module="routes", domain="every ordered list of 0..=3 suffixes out of 5 nested / case-variant names x 2 handler types (312 route fragments); 860 lists with one invalid entry"),
], explanation="longest matching suffix decides (argmax over all matching (route,suffix) pairs), for all route tables and names; the table itself: every configured suffix reaches the router (bounded, real loader)",
    assumptions=["configuration read through the RwLock is a snapshot (single task)",
                 "results produced by the resolver below the router are tagged with the server they were sent to (uninterpreted forwarded_to); locally produced errors are never forwarded (axiom)"])

prop("C07", [
    dict(engine="kani", sets=["net_addr", "net_udp_addr"]),
    dict(engine="verus", unit="netsend"),
    dict(engine="verus", unit="outq"),
], explanation="two clauses of C07: (1) the source-address control message carries the receiving address (all 2^32/2^128 addresses, Kani complete); "
               "(2) own answer with many queries in flight: the query sent upstream carries exactly the client's question; on a shared upstream TCP connection a waiter is registered under an id no in-flight query uses and is never overwritten, "
               "a reply goes to the waiter registered under its id and to no other (per-query connected UDP sockets make crossing impossible on the UDP path: read, not proved)",
    assumptions=["waiting forwarded queries are never cancelled (oneshot send cannot fail): no time-out or select! wraps rx.await in send_query_to",
                 "NOT decided: exactly-one-reply under loss/reordering/duplication, bounded-time SERVFAIL when the upstream stays silent, the futures::select! loops of send_udp and TcpNameserver::run (schedules, timers, I/O faults)"])

prop("C08", [
    dict(engine="verus", unit="acl"),
    # which address the DNS ACL judges: the peer of the datagram / TCP connection (emission-point precondition of the ACL layer)
    dict(engine="verus", unit="dnsreply", fns=["run_udp_reply", "run_tcp_reply", "DnsListenerHandler::recv_in_query", "DnsListenerHandler::build_dns_message"]),
    dict(engine="kani", sets=["config_prefix", "acl_check"]),
    # the code AROUND the TCP slice (accept, socket reads, tokio::spawn), end to end over loopback
    dict(engine="sql", module="listener", domain="3 ACL tables x TCP clients connecting from 127.0.0.1/.2/.3 (9 exchanges over real loopback sockets)"),
], explanation="require_permission grants <=> the first matching rule exists and grants the permission (Acl::check, check_authenticated via R17d/R17e, require_permission); "
               "entry points: the welcome page, /metrics, the lease listing and the DNS handler chain behind DnsAclHandler are reachable only with the matching permission token (emission-point preconditions), refusal => 403 / RefusedByAcl; "
               "prefix containment against the written-prefix spec, all addresses and prefix lengths (Kani complete)",
    assumptions=["Prefix::contains dispatch over address families and NetAddr::ip()/as_unix_addr() are opaque in the Verus unit (the Prefix4/Prefix6 impls are the Kani set config_prefix)",
                 "conf.read().await (lock acquisition) treated as a plain read: a configuration reload between the check and the use is not modelled",
                 "hyper routing: which arm of `match (req.method(), req.uri().path())` runs is outside the slices; the catch-all arm (404 behind HttpLeases) is not sliced"])

prop("C11", [
    dict(engine="verus", unit="policy", fns=["check_policy", "check_policies", "apply_policy", "apply_policies",
         "ResponseOptions::set_raw_option", "ResponseOptions::set_option", "ResponseOptions::mutate_option",
         "ResponseOptions::mutate_option_default", "ResponseOptions::to_options"]),
    # top-level defaults: the built-in base policy (R9 slices of build_default_config) and its application before the configured policies
    dict(engine="verus", unit="dhcpdefaults"),
    dict(engine="verus", unit="dhcphandlers", fns=["handle_discover", "handle_request"]),
    # the two gate clauses on the real apply_policies, body-independent (also judges a rewritten apply_policy); covers the
    # parameter-request-list extraction that the Verus unit replaces by a stub
    dict(engine="sql", module="policy", domain="one matching policy carrying one option out of 10 codes (incl. 5 pairs 128 apart) x every parameter request list of 0..=2 of those codes (1010 cases); netmask/broadcast defaults (101 cases); first matching sibling: 1..=3 siblings, flat and nested, every subset matching (28 cases)"),
    # "null = explicitly unset / do not send" as the loader produces it, for every named option of every type (real Config::parse_policy)
    dict(engine="sql", module="dhcpcfg", checks=["policy-options/"], domain="apply-<name>: null and match-<name>: null for each of the 74 named options (all option types)"),
], explanation="policy selection and override: the response state after apply_policies equals the recursive model taken from the property statement (first applicable sibling only, condition-less policy applies iff a sub-policy does, own options then children then subnet defaults, null = do-not-send, only options in the parameter request list); to_options sends exactly the entries carrying a value",
    assumptions=["parameter-request-list extraction (iterator chain .unwrap_or_default().iter().copied().map(DhcpOption::from).collect()) replaced by a stub with the obvious contract",
                 "generic get_option::<Vec<u8>> glue assumed (parse_into proved in unit dhcpgetters)",
                 "DhcpOptionTypeValue opaque: as_bytes() and Serialise::serialise() yield the same bytes (one-line impl `v.extend(self.as_bytes().iter())`)",
                 "Ipv4Subnet::contains/netmask/broadcast opaque here (proved by Kani set net_subnet)",
                 "DhcpOption obeys vstd's hash-table key model (derive(Hash, Eq) on a u8 newtype)",
                 "build_default_config: the three top-level options and the per-interface extras are R9 slices (unit dhcpdefaults); the sub-policy list construction (filter_map over `addresses`) around them is not under contract, its address pools are unit dhcpranges",
                 "if_mtu above 65535 (only a loopback interface) is outside the contract of the MTU default (`mtu as u16` wraps)"])

prop("C12", [
    dict(engine="kani", sets=["dhcp_flag", "net_packet", "dhcp_ser", "dhcp_ints"]),
    dict(engine="verus", unit="dhcpparse"),      # parse, parse_options, null_terminated and the Buffer primitives they read through
    dict(engine="verus", unit="dhcpser"),
    dict(engine="verus", unit="frame"),
    # the HashMap glue both units assume (Entry chain of parse_options, iteration of serialise), on the real code
    dict(engine="sql", module="opts", domain="option areas of <= 3 instances over 2 codes x 7 values of 0..=2 octets (2955 areas); tables of 1..2 options with values of 0, 1, 254..256, 509..511, 765 octets, three fill patterns (216 tables)"),
], explanation="Ethernet/IPv4/UDP frame builder: bytes == eth ++ ip_hdr ++ udp_hdr ++ payload with RFC fields, both checksums computed over the right octets and verifying (lemmas), destination = limited broadcast iff broadcast bit; DHCP option encoder == RFC 2132/3396 encoding (split at 255, zero-length kept) for every table, and its decoding by dec_opts gives back the table (lemma); broadcast flag over all 65536 values; one's-complement fold complete over all u32 sums, word summation bounded; DHCP decoder == RFC decoding spec (dec_opts) for all byte strings")


# ---------------------------------------------------------------------------------------------
def run_task(pid, task, tier, scratch, seed):
    eng = task["engine"]
    if eng == "verus":
        return run_verus(pid, task, tier, scratch)
    if eng == "kani":
        import krun
        return krun.run_task(pid, task, tier, scratch, seed)
    if eng == "sql":
        import brun
        return brun.run_task(pid, task, tier, scratch, seed)
    raise SystemExit("unknown engine %s" % eng)


def claimed(pid, task, tags, name):
    if task.get("fns") is not None:
        return name in task["fns"]
    if task.get("exclude") and name in task["exclude"]:
        return False
    t = tags.get(name)
    return (t is None) or (pid in t)


def clause_props(f):
    import re as _re
    c = f.get("clause") or {}
    m = _re.search(r"/\*only:([A-Z0-9, ]+)\*/", c.get("text", "") if isinstance(c, dict) else str(c))
    return set(x.strip() for x in m.group(1).split(",")) if m else None


def run_verus(pid, task, tier, scratch):
    rlimit = task.get("rlimit", 30) * (4 if tier == "thorough" else 1)
    r = vrun.run_unit(task["unit"], os.path.join(scratch, "v"), rlimit=rlimit)
    # clause-level attribution.  A contract clause marked `/*only:C04*/` belongs to the listed properties alone.  When such a clause
    # fails and this property is not listed, it is not this property's violation -- but no proof of this property may lean on it
    # either: the failing foreign clauses are taken out of the contracts and the unit is verified again, until no foreign clause
    # fails (clauses that only held because of a dropped one fail in the next round).  What still fails then is this property's own.
    dropped, dep_ms = set(), 0
    for _ in range(5):
        ats = set()
        for f in r.get("failures", []):
            cp = clause_props(f)
            if cp is not None and pid not in cp and isinstance(f.get("clause"), dict) and f["clause"].get("at"):
                ats.add(f["clause"]["at"])
        ats -= dropped
        if not ats:
            break
        dropped |= ats
        dep_ms += r.get("smt_ms", 0)
        r = vrun.run_unit(task["unit"], os.path.join(scratch, "v"), rlimit=rlimit, drop_clauses=tuple(sorted(dropped)))
    unit = task["unit"]
    tags = r.get("tags", {})
    out = dict(task="verus:" + unit, engine="verus(z3)", status=r["status"], undecided_reason=r.get("undecided_reason", ""),
               obligations=[], failures=[], assumptions=["[%s] %s" % (unit, x) for x in r.get("assumptions", [])],
               trusted_base=[], functions_under_contract=[], rewrites=[[unit] + list(x) for x in r.get("rewrites", [])],
               samples=[], checker_cmd=r.get("checker_cmd", ""), solver_ms=r.get("smt_ms", 0), canaries=r.get("canaries_failed_as_expected", 0))
    if r["status"] == "undecided" and not r["functions"]:
        return out
    failing, foreign = {}, {}
    for f in r["failures"]:
        cp = clause_props(f)
        if cp is not None and pid not in cp:
            foreign[f["fn"]] = foreign.get(f["fn"], 0) + 1
            continue
        failing.setdefault(f["fn"], []).append(f)
    if foreign:
        out["status"] = "undecided"
        out["undecided_reason"] = "clauses of other properties still fail after %d dependency rounds in %s" % (len(dropped), sorted(foreign))
        r = dict(r, status="undecided")
    for name, f in r["functions"].items():
        if f["canary"] or not claimed(pid, task, tags, name):
            continue
        ok = bool(f["success"]) and name not in failing
        if f["success"] is None and name not in failing:
            ok = r["status"] == "ok"   # no SMT query needed (trivial) and verus reported overall success
        out["obligations"].append(dict(name="%s::%s" % (unit, name), ok=ok, kind="proved", origin=f["origin"], ms=f["time_ms"]))
        out["functions_under_contract"].append("%s (%s)" % (name, f["origin"]))
    import re as _re
    for name, f in r.get("aux_items", {}).items():
        if not claimed(pid, task, tags, name):
            continue
        # constants, derived/axiomatised Clone impls and stub declarations generate trivial items: not obligations
        last = name.split("::")[-1]
        if _re.match(r"^[A-Z0-9_]+$", last) or last == "clone" or "impl&%" in name or last.startswith("verif_") or last.startswith("axiom_"):
            continue
        out["obligations"].append(dict(name="%s::%s" % (unit, name), ok=bool(f["success"]), kind="proved", origin="contracts/%s.vc" % unit, ms=f["time_ms"]))
    for fn, fl in failing.items():
        if not claimed(pid, task, tags, fn.strip("<>")):
            continue
        for f in fl:
            f = dict(f)
            f["engine"] = "verus"
            out["failures"].append(f)
    for o in out["obligations"][:6]:
        out["samples"].append("%s [%s] %s %dms" % (o["name"], o["origin"], "discharged" if o["ok"] else "FAILED", o["ms"]))
    if out["failures"]:
        out["status"] = "violation"
    elif r["status"] == "undecided":
        out["status"] = "undecided"
    else:
        out["status"] = "ok"
    return out
