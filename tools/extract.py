#!/usr/bin/env python3
"""Engine V extractor: assemble one Verus file per unit from /repo's working tree.

Reads contracts/<unit>.vc, locates every named item in the named source files
(token-based, see rustlex.py), copies the text verbatim, applies the fixed rewrite
rules R1..R12 of DESIGN.md section 3.1 (each application is logged), splices the
contract clauses between signature and body (and loop clauses at the n-th loop),
and writes <out>/<unit>.rs together with <out>/<unit>.map.json (line map,
function table, rewrites applied, assumptions found).

A missing item / anchor raises Lost(...) -> the caller reports 'undecided'.
"""
import json
import os
import re
import sys

sys.path.insert(0, os.path.dirname(os.path.abspath(__file__)))
from rustlex import lex, match_close, Source, norm_ws, OPEN, CLOSE, LexError  # noqa: E402

REPO = os.environ.get("VERIF_REPO", "/repo")
VERIF = os.path.dirname(os.path.dirname(os.path.abspath(__file__)))


class Lost(Exception):
    """an anchor named in the contract file is not present in the tree"""


class Unit:
    def __init__(self, name):
        self.name = name
        self.props = []
        self.sources = {}      # alias -> path
        self.seq = []          # ordered directives that emit text
        self.specs = {}        # fnpath -> dict(text, ret, line)
        self.loops = {}        # (fnpath, n) -> (text, line)
        self.hints = []        # dict(fn, where, anchor, nth, text, line)
        self.substs = []       # dict(scope, opt, frm, to, line, count)
        self.canaries = []     # dict(fn, text, line)
        self.closures = []     # dict(fn, anchor, nth, text, line): closure header annotations (types + requires/ensures)
        self.settings = {}
        self.tags = {}         # fnpath -> set(props)   (which properties claim this function)
        self.vcpath = None
        self.outside = []      # raw Rust emitted after the verus! block (Display impls etc.)
        self.included = set()
        self.optloops = set()
        self.callghost = []    # R19: ghost argument appended to calls of a stubbed callee (emission-point preconditions)
        self.mutself = set()   # R15b: by-value `self` / `mut self` receivers rebound to a mutable local
        self.sqlmap = {}       # (fnpath, ordinal) -> dict(stub, sha): R7
        self.sqlseen = []      # what R7 found: dict(fn, n, stub, sha, sql)


def vctag(u, line):
    return "%s:%d" % (u.incfiles[line // 100000], line % 100000)


def parse_vc(path):
    u = None
    cur = None
    u = Unit(os.path.splitext(os.path.basename(path))[0])
    u.vcpath = path
    # textual include of library contract files: `@@ vcinclude lib/buffer.vcl`; lines of the k-th
    # included file are numbered k*100000 + n (decoded by vctag())
    lines = []
    u.incfiles = [os.path.basename(path)]

    def expand(pth, base):
        for n, raw in enumerate(open(pth).read().split("\n"), 1):
            if raw.startswith("@@ vcinclude"):
                ip = os.path.join(os.path.dirname(path), raw.split()[2])
                u.incfiles.append(os.path.relpath(ip, os.path.dirname(path)))
                lines.append((base + n, "@@ end"))
                expand(ip, (len(u.incfiles) - 1) * 100000)
                lines.append((base + n, "@@ end"))
            else:
                lines.append((base + n, raw))
    expand(path, 0)
    body = []

    def flush():
        nonlocal cur, body
        if cur is None:
            return
        text = "\n".join(body).strip("\n")
        kind = cur["kind"]
        if kind == "spec":
            u.specs[cur["fn"]] = dict(text=text, ret=cur.get("ret", "ret"), line=cur["line"], attrs=cur.get("attrs", ""))
        elif kind == "loop":
            u.loops[(cur["fn"], cur["n"])] = (text, cur["line"])
            if cur.get("opt"):
                u.optloops.add((cur["fn"], cur["n"]))
        elif kind == "hint":
            cur["text"] = text
            u.hints.append(cur)
        elif kind == "subst":
            if "\n=>\n" in "\n" + text + "\n":
                frm, to = ("\n" + text + "\n").split("\n=>\n", 1)
                frm, to = frm.strip("\n"), to.strip("\n")
            else:
                raise SystemExit("%s:%d: subst needs a '=>' line" % (path, cur["line"]))
            if re.search(r"\n\s*\n//", "\n" + to) or re.search(r"\n\s*\n//", "\n" + frm):
                raise SystemExit("%s:%d: subst text swallows a comment block after a blank line -- missing '@@ end'?" % (path, cur["line"]))
            cur.update(frm=frm, to=to, count=0)
            u.substs.append(cur)
        elif kind == "canary":
            cur["text"] = text
            u.canaries.append(cur)
        elif kind == "closure":
            cur["text"] = text
            u.closures.append(cur)
        elif kind == "verus":
            u.seq.append(dict(kind="verus", text=text, line=cur["line"]))
        elif kind == "rust":
            u.outside.append(text)
        cur, body = None, []

    for ln, raw in lines:
        if not raw.startswith("@@"):
            if cur is not None:
                body.append(raw)
            continue
        flush()
        parts = raw[2:].strip().split()
        if not parts:
            continue
        d = parts[0]
        if d == "unit":
            u.name = parts[1]
        elif d == "props":
            u.props = parts[1:]
        elif d == "set":
            u.settings[parts[1]] = parts[2] if len(parts) > 2 else "1"
        elif d == "source":
            u.sources[parts[1]] = parts[2]
        elif d in ("struct", "enum", "const", "static", "type", "trait"):
            opts = parts[3:]
            new = None
            if "as" in opts:
                new = opts[opts.index("as") + 1]
                opts = [o for o in opts if o not in ("as", new)]
            u.seq.append(dict(kind="item", ikind=d, src=parts[1], name=parts[2], opts=opts, line=ln, new=new))
        elif d == "fn":
            # @@ fn <src> <name> [as <new>] [in <mod>]
            new = parts[parts.index("as") + 1] if "as" in parts else parts[2]
            inmod = parts[parts.index("in") + 1] if "in" in parts else None
            u.seq.append(dict(kind="fn", src=parts[1], name=parts[2], new=new, inmod=inmod, line=ln))
        elif d == "impl":
            # @@ impl <src> <Type> : m1 m2 ...
            i = parts.index(":")
            u.seq.append(dict(kind="impl", src=parts[1], type=parts[2], methods=parts[i + 1:], line=ln))
        elif d == "traitimpl":
            # @@ traitimpl <src> "<header>" : m [as n] ... => <Type|->      (R8)
            m = re.match(r'@@\s*traitimpl\s+(\S+)\s+"([^"]+)"\s*:\s*(.*?)\s*=>\s*(\S+)\s*$', raw)
            if not m:
                raise SystemExit("%s:%d: bad traitimpl" % (path, ln))
            ms = []
            ws = m.group(3).split()
            k = 0
            while k < len(ws):
                if k + 2 < len(ws) and ws[k + 1] == "as":
                    ms.append((ws[k], ws[k + 2]))
                    k += 3
                else:
                    ms.append((ws[k], ws[k]))
                    k += 1
            u.seq.append(dict(kind="traitimpl", src=m.group(1), header=m.group(2), methods=ms, target=m.group(4), line=ln))
        elif d == "slice":
            # @@ slice <src> <fnpath-in-source> <newname> "<start anchor>" "<end anchor>"   (R9)
            m = re.match(r'@@\s*slice\s+(\S+)\s+(\S+)\s+(\S+)\s+"((?:[^"\\]|\\.)*)"\s+"((?:[^"\\]|\\.)*)"(?:\s*#(\d+))?((?:\s+(?:skipfirst|skiplast|skip=\d+))*)\s*$', raw)
            if not m:
                raise SystemExit("%s:%d: bad slice" % (path, ln))
            cur = dict(kind="slicehdr", src=m.group(1), host=m.group(2), new=m.group(3), a0=m.group(4).replace('\\"', '"'), a1=m.group(5).replace('\\"', '"'), n1=int(m.group(6) or 1), line=ln,
                       skipfirst="skipfirst" in (m.group(7) or ""), skiplast="skiplast" in (m.group(7) or ""),
                       skip=int((re.search(r"skip=(\d+)", m.group(7) or "") or [0, 0])[1]))
            u.seq.append(cur)
            cur = None
        elif d == "spec":
            cur = dict(kind="spec", fn=parts[1], line=ln)
            if "ret" in parts:
                cur["ret"] = parts[parts.index("ret") + 1]
            if "props" in parts:
                u.tags[parts[1]] = set(parts[parts.index("props") + 1].split(","))
            if "attrs" in parts:
                cur["attrs"] = raw.split("attrs", 1)[1].strip()
        elif d == "loop":
            cur = dict(kind="loop", fn=parts[1], n=int(parts[2]), line=ln, opt=("opt" in parts[3:]))
        elif d == "hint":
            m = re.match(r'@@\s*hint\s+(\S+)\s+(before|after)\s+"(.*)"(?:\s+#(\d+))?(?:\s+([+-]\d+))?(\s+opt)?\s*$', raw)
            if not m:
                raise SystemExit("%s:%d: bad hint" % (path, ln))
            # `opt`: a hint that only helps to prove something ABOUT its anchor statement; without the statement there is nothing to help
            cur = dict(kind="hint", fn=m.group(1), where=m.group(2), anchor=m.group(3), nth=int(m.group(4) or 1), plus=int(m.group(5) or 0), opt=bool(m.group(6)), line=ln)
        elif d == "callghost":
            # @@ callghost <fnpath> <callee> "<first argument text>" "<ghost expression>"
            m = re.match(r'@@\s*callghost\s+(\S+)\s+(\S+)\s+"(.*?)"\s+"(.*)"\s*$', raw)
            if not m:
                raise SystemExit("%s:%d: bad callghost" % (path, ln))
            u.callghost.append(dict(fn=m.group(1), callee=m.group(2), first=m.group(3), ghost=m.group(4), count=0, line=ln))
        elif d == "mutself":
            u.mutself.add(parts[1])
        elif d == "sql":
            u.sqlmap[(parts[1], int(parts[2]))] = dict(stub=parts[3], sha=parts[4] if len(parts) > 4 else None, line=ln)
        elif d == "closure":
            m = re.match(r'@@\s*closure\s+(\S+)\s+"(.*)"(?:\s+#(\d+))?\s*$', raw)
            if not m:
                raise SystemExit("%s:%d: bad closure" % (path, ln))
            cur = dict(kind="closure", fn=m.group(1), anchor=m.group(2), nth=int(m.group(3) or 1), line=ln)
        elif d == "subst":
            cur = dict(kind="subst", scope=parts[1], opt=("opt" in parts[2:]), ws=("ws" in parts[2:]), line=ln)
        elif d == "canary":
            cur = dict(kind="canary", fn=parts[1], line=ln)
        elif d == "verus":
            cur = dict(kind="verus", line=ln)
        elif d == "rust":
            cur = dict(kind="rust", line=ln)
        elif d == "include":
            if parts[1] in u.included:
                continue
            u.included.add(parts[1])
            ip = os.path.join(os.path.dirname(path), "inc", parts[1] + ".vinc")
            u.seq.append(dict(kind="verus", text=open(ip).read().strip("\n"), line=0, origin="inc/%s.vinc" % parts[1]))
        elif d == "end":
            cur = None
        else:
            raise SystemExit("%s:%d: unknown directive %s" % (path, ln, d))
    flush()
    return u


# ---------------------------------------------------------------- rewriting --

LOG_MACROS = {"trace", "debug", "info", "warn", "error", "println", "eprintln", "print", "eprint"}


def split_args(text):
    """split macro argument text at top-level commas (token aware)"""
    toks = lex(text)
    out, depth, last = [], 0, 0
    i = 0
    while i < len(toks):
        t = toks[i]
        if t.kind == "p" and t.text in OPEN:
            i = match_close(toks, i) + 1
            continue
        if t.kind == "p" and t.text == ",":
            out.append(text[last:t.start].strip())
            last = t.end
        i += 1
    tail = text[last:].strip()
    if tail:
        out.append(tail)
    return out


def rewrite_macros(text, log, where, settings):
    """R2 (assert_eq/ne, assert messages, panic-likes) and R4 (log macros)."""
    while True:
        toks = lex(text)
        changed = False
        for i, t in enumerate(toks):
            if t.kind != "id" or i + 2 >= len(toks):
                continue
            if toks[i + 1].text != "!" or toks[i + 2].text not in ("(", "[", "{"):
                continue
            name = t.text
            start = t.start
            # log::info!  /  ::log::info!
            if name in LOG_MACROS and i >= 2 and toks[i - 1].text == "::" and toks[i - 2].text == "log":
                start = toks[i - 2].start
            close = match_close(toks, i + 2)
            inner = text[toks[i + 2].end:toks[close].start]
            repl = None
            if name in ("assert_eq", "assert_ne", "debug_assert_eq", "debug_assert_ne"):
                a = split_args(inner)
                op = "==" if name.endswith("eq") else "!="
                repl = "assert!((%s) %s (%s))" % (a[0], op, a[1])
                log.append(("R2", where, name))
            elif name in ("assert", "debug_assert"):
                a = split_args(inner)
                if len(a) > 1:
                    repl = "assert!(%s)" % a[0]
                    log.append(("R2", where, "assert-message-dropped"))
            elif name in ("panic", "unimplemented", "todo"):
                repl = "unreachable!()"
                log.append(("R2", where, name))
            elif name == "unreachable" and inner.strip():
                repl = "unreachable!()"
                log.append(("R2", where, "unreachable-message-dropped"))
            elif name == "format" and settings.get("format") == "stubdrop":
                repl = "{ verif_fmt() }"
                log.append(("R4", where, "format! -> verif_fmt() (text and arguments dropped)"))
            elif name == "format" and settings.get("format") == "stub":
                a = split_args(inner)[1:]
                stm = []
                for x in a:
                    m = re.match(r"^([A-Za-z_][A-Za-z0-9_]*)\s*=\s*(?!=)(.*)$", x, re.S)
                    if m:
                        x = m.group(2)
                    stm.append("let _ = &(%s);" % x)
                repl = "{ %s verif_fmt() }" % " ".join(stm)
                log.append(("R4", where, "format! -> verif_fmt() (text dropped, args evaluated)"))
            elif name in LOG_MACROS and (start != t.start or settings.get("barelog") == "1" or name in ("println", "eprintln", "print", "eprint")):
                a = split_args(inner)[1:]
                stm = []
                if settings.get("logargs") != "drop":
                    for x in a:
                        m = re.match(r"^([A-Za-z_][A-Za-z0-9_]*)\s*=\s*(?!=)(.*)$", x, re.S)
                        if m:
                            x = m.group(2)
                        stm.append("let _ = &(%s);" % x)
                repl = "{ %s }" % " ".join(stm)
                log.append(("R4", where, "%s!%s" % (name, " (args dropped)" if settings.get("logargs") == "drop" and a else "")))
            if repl is not None:
                text = text[:start] + repl + text[toks[close].end:]
                changed = True
                break
        if not changed:
            return text


R11_PAT = re.compile(r"\b(\w+)\.splice\(\s*([\w.()+\- ]+?)\s*\.\.\s*([\w.()+\- ]+?)\s*,\s*([\w.]+)\.to_be_bytes\(\)\.iter\(\)\.copied\(\)\s*\)")


# R11b: v.extend((<e> as u16).to_{be,le}_bytes().iter()) -> verif_extend_{be,le}16(&mut v, (<e> as u16)); the cast names the width
R11B_PAT = re.compile(r"\b(\w+)\.extend\(\s*(\((?:[^()]|\((?:[^()]|\([^()]*\))*\))*? as u16\))\.to_(be|le)_bytes\(\)\.iter\(\)\s*\)")


def rewrite_splice(text, log, where):
    """R11: x.splice(a..b, y.to_be_bytes().iter().copied()) -> verif_splice_be16(&mut x, a, b, y)"""
    text, n = R11_PAT.subn(r"verif_splice_be16(&mut \1, \2, \3, \4)", text)
    for _ in range(n):
        log.append(("R11", where, "splice(a..b, be16 bytes)"))
    text, n = R11B_PAT.subn(lambda m: "verif_extend_%s16(&mut %s, %s)" % (m.group(3), m.group(1), m.group(2)), text)
    for _ in range(n):
        log.append(("R11b", where, "extend(u16 bytes)"))
    return text


R6_PATS = [
    (re.compile(r"u16::from_be_bytes\(\s*([^;{}]*?)\s*\.try_into\(\)\s*\.unwrap\(\)\s*,?\s*\)", re.S), r"verif_be16(\1)"),
    (re.compile(r"u32::from_be_bytes\(\s*([^;{}]*?)\s*\.try_into\(\)\s*\.unwrap\(\)\s*,?\s*\)", re.S), r"verif_be32(\1)"),
]


def rewrite_be_bytes(text, log, where):
    """R6: uN::from_be_bytes(X.try_into().unwrap()) -> verif_beN(X)  (stub requires X.len()==N/8)
    R6b: <[u8; N]>::try_from(X).unwrap() -> verif_arrN(X)  (X a slice; stub requires X.len()==N: the unwrap's panic condition)"""
    for pat, rep in R6_PATS:
        text, n = pat.subn(rep, text)
        for _ in range(n):
            log.append(("R6", where, rep.split("(")[0]))
    while True:
        m = re.search(r"<\[u8; (\d+)\]>::try_from\(", text)
        if not m:
            break
        toks = [t for t in lex(text) if t.start >= m.end() - 1]
        close = match_close(toks, 0)
        rest = text[toks[close].end:]
        m2 = re.match(r"\s*\.unwrap\(\)", rest)
        if not m2:
            # leave it for a subst / for Verus to reject
            text = text[:m.start()] + "<[u8;  " + text[m.start() + 6:]
            continue
        text = text[:m.start()] + "verif_arr%s(" % m.group(1) + text[m.end():toks[close].end] + rest[m2.end():]
        log.append(("R6b", where, "array try_from(slice).unwrap()"))
    return text


R6C_PAT = re.compile(r"((?:self\.)?\w+(?:\.\w+)*)\[\s*([^\[\]]+?)\s*\.\.\s*([^\[\]=][^\[\]]*?)\s*\]\.to_vec\(\)")


def rewrite_subvec(text, log, where):
    """R6c (`@@ set subvec stub`): PATH[A..B].to_vec() -> verif_subvec(&PATH, A, B); A, B, PATH are kept token for token; the stub
    requires A <= B <= PATH.len(), which is the slice expression's panic condition"""
    text, n = R6C_PAT.subn(r"verif_subvec(&\1, \2, \3)", text)
    for _ in range(n):
        log.append(("R6c", where, "PATH[A..B].to_vec()"))
    return text


def rewrite_quals(text, log, where):
    """R1: const fn -> fn ; pub(crate)/pub(super) -> pub   (item header only)"""
    toks = lex(text)
    out, last = [], 0
    i = 0
    # only look at tokens before the body / first '{' or ';'
    while i < len(toks):
        t = toks[i]
        if t.kind == "p" and t.text in ("{", ";", "("):
            if t.text == "(" and i >= 1 and toks[i - 1].text == "pub":
                c = match_close(toks, i)
                out.append(text[last:t.start])
                last = toks[c].end
                log.append(("R1", where, "pub(..)->pub"))
                i = c + 1
                continue
            break
        if t.kind == "id" and t.text == "const" and i + 1 < len(toks) and toks[i + 1].text in ("fn", "unsafe", "async"):
            out.append(text[last:t.start])
            last = toks[i + 1].start
            log.append(("R1", where, "const fn->fn"))
        i += 1
    out.append(text[last:])
    res = "".join(out)
    if not re.match(r"\s*pub\b", res):
        res = "pub " + res.lstrip()
        log.append(("R1", where, "made pub"))
    return res


def pub_fields(text, log, where):
    """R1: every field of an extracted struct becomes `pub` (visibility has no meaning in the
    single-file unit; Verus otherwise treats the type as opaque in public contracts)."""
    toks = lex(text)
    # field group = first '(' or '{' at depth 0 after the name (skip generics)
    g = None
    for i, t in enumerate(toks):
        if t.kind == "p" and t.text in ("(", "{"):
            g = i
            break
        if t.kind == "p" and t.text == ";":
            return text
    if g is None:
        return text
    close = match_close(toks, g)
    ins = []
    i = g + 1
    start_field = True
    while i < close:
        t = toks[i]
        if start_field:
            while toks[i].text == "#":
                i = match_close(toks, i + 1) + 1
            if i >= close:
                break
            t = toks[i]
            if not (t.kind == "id" and t.text == "pub"):
                ins.append(t.start)
            start_field = False
        if t.kind == "p" and t.text in OPEN:
            i = match_close(toks, i) + 1
            continue
        if t.kind == "p" and t.text == "<":
            # generic args may contain commas: skip to matching '>'
            depth = 0
            while i < close:
                if toks[i].text == "<":
                    depth += 1
                elif toks[i].text == ">":
                    depth -= 1
                elif toks[i].text == ">>":
                    depth -= 2
                elif toks[i].kind == "p" and toks[i].text in OPEN:
                    i = match_close(toks, i)
                if depth <= 0:
                    break
                i += 1
            i += 1
            continue
        if t.kind == "p" and t.text == ",":
            start_field = True
        i += 1
    for off in reversed(ins):
        text = text[:off] + "pub " + text[off:]
    if ins:
        log.append(("R1", where, "%d fields made pub" % len(ins)))
    return text


def strip_attrs(src, item):
    """return item text without leading #[..] attributes (doc comments are comments: not tokens)"""
    toks = item.toks
    k = item.first
    while toks[k].text == "#":
        c = match_close(toks, k + 1)
        k = c + 1
    return src.text[toks[k].start:item.end], toks[k].start


def fn_parts(text):
    """locate pieces of a fn item text. returns dict(name_end, params_close, arrow, body_open, body_close) as char offsets"""
    toks = lex(text)
    k = None
    for i, t in enumerate(toks):
        if t.kind == "id" and t.text == "fn":
            k = i
            break
    if k is None:
        raise Lost("not a fn: %r" % text[:60])
    j = k + 2
    # generics
    if toks[j].text == "<":
        depth = 0
        while True:
            if toks[j].text == "<":
                depth += 1
            elif toks[j].text == ">":
                depth -= 1
                if depth == 0:
                    break
            elif toks[j].text == ">>":
                depth -= 2
                if depth <= 0:
                    break
            elif toks[j].text == "->":
                pass
            j += 1
        j += 1
    assert toks[j].text == "(", (toks[j], text[:80])
    pc = match_close(toks, j)
    b = pc + 1
    arrow = None
    where = None
    while not (toks[b].kind == "p" and toks[b].text == "{"):
        if toks[b].text == "->" and arrow is None:
            arrow = b
        if toks[b].kind == "id" and toks[b].text == "where":
            where = b
        if toks[b].kind == "p" and toks[b].text in OPEN:
            b = match_close(toks, b)
        b += 1
    bc = match_close(toks, b)
    return dict(toks=toks, kw=k, name=toks[k + 1], params_open=j, params_close=pc, arrow=arrow, where=where, body_open=b, body_close=bc)


LOOP_KW = {"while", "for", "loop"}


def loop_positions(text, body_open_off, body_close_off):
    """char offsets of the '{' of each loop body in source order"""
    toks = lex(text)
    res = []
    for i, t in enumerate(toks):
        if t.start <= body_open_off or t.start >= body_close_off:
            continue
        if t.kind == "id" and t.text in LOOP_KW:
            if t.text == "for" and i + 1 < len(toks) and toks[i + 1].text == "<":
                continue
            if i > 0 and toks[i - 1].text == ".":
                continue
            j = i + 1
            while not (toks[j].kind == "p" and toks[j].text == "{"):
                if toks[j].kind == "p" and toks[j].text in OPEN:
                    j = match_close(toks, j)
                j += 1
            # label 'a: loop  -> insert position is still before '{'
            res.append((t.start, toks[j].start, t.text))
    return res


def apply_substs(u, fnpath, text, log):
    for s in u.substs:
        if s["scope"] != "*" and s["scope"] != fnpath:
            continue
        if s.get("ws"):
            # option `ws`: the from-text is matched as a token sequence, whatever the white space between the tokens
            pat = re.compile(r"\s*".join(re.escape(t.text) for t in lex(s["frm"])))
            text, c = pat.subn(lambda m: s["to"], text)
        else:
            c = text.count(s["frm"])
            if c:
                text = text.replace(s["frm"], s["to"])
        if c:
            s["count"] += c
            log.append(("subst", fnpath, "%s x%d" % (vctag(u, s["line"]), c)))
    return text


def name_wildcard_closure_params(text, log, where):
    """R14: `|_|` closure parameter -> `|_verif_unused|` (Verus accepts only variables there)."""
    toks = lex(text)
    edits = []
    for i in range(1, len(toks) - 2):
        if toks[i].text == "|" and toks[i + 1].kind == "id" and toks[i + 1].text == "_" and toks[i + 2].text == "|" \
                and toks[i - 1].text in ("(", ",", "=", "move"):
            edits.append(toks[i + 1])
    for t in reversed(edits):
        text = text[:t.start] + "_verif_unused" + text[t.end:]
        log.append(("R14", where, "|_| -> |_verif_unused|"))
    return text


def demut_params(text, log, where):
    """R15: `fn f(mut x: T)` -> `fn f(x: T) { let mut x = x; ...`  (Verus rejects `mut` parameter bindings)"""
    p = fn_parts(text)
    toks = p["toks"]
    names = []
    edits = []
    i = p["params_open"] + 1
    start = True
    while i < p["params_close"]:
        t = toks[i]
        if start and t.kind == "id" and t.text == "mut" and toks[i + 1].kind == "id" and toks[i + 2].text == ":" and toks[i + 1].text != "self":
            names.append(toks[i + 1].text)
            edits.append((t.start, toks[i + 1].start))
        start = False
        if t.kind == "p" and t.text in OPEN:
            i = match_close(toks, i) + 1
            continue
        if t.kind == "p" and t.text == "<":
            depth = 0
            while i < p["params_close"]:
                if toks[i].text == "<":
                    depth += 1
                elif toks[i].text == ">":
                    depth -= 1
                elif toks[i].text == ">>":
                    depth -= 2
                if depth <= 0:
                    break
                i += 1
        if t.kind == "p" and t.text == ",":
            start = True
        i += 1
    if not names:
        return text
    bo = toks[p["body_open"]].end
    text = text[:bo] + "".join("\n        let ghost old_%s = %s; let mut %s = %s;" % (n, n, n, n) for n in names) + text[bo:]
    for (a, b) in reversed(edits):
        text = text[:a] + text[b:]
    log.append(("R15", where, "mut params rebound: %s" % ",".join(names)))
    return text


def desugar_map_collect(text, log, where):
    """R17: `RECV.iter().map(|PAT| BODY).collect()` (RECV a field path) is rewritten into the loop it
    abbreviates: `{ let mut verif_out = Vec::new(); for PAT in RECV.iter() { verif_out.push(BODY); } verif_out }`.
    Nothing is dropped; the equivalence is the std definition of Iterator::map + collect::<Vec<_>>()."""
    while True:
        toks = lex(text)
        hit = None
        for i in range(1, len(toks) - 8):
            if toks[i].text == "iter" and toks[i - 1].text == "." and toks[i + 1].text == "(" and toks[i + 2].text == ")" \
                    and toks[i + 3].text == "." and toks[i + 4].text in ("map", "filter_map") and toks[i + 5].text == "(" and toks[i + 6].text == "|":
                mclose = match_close(toks, i + 5)
                # closure params
                pe = i + 7
                while toks[pe].text != "|":
                    pe += 1
                if mclose + 4 >= len(toks) or toks[mclose + 1].text != "." or toks[mclose + 2].text != "collect":
                    continue
                c = mclose + 3
                if toks[c].text == "::":
                    # turbofish: skip to '('
                    while toks[c].text != "(":
                        c += 1
                if toks[c].text != "(" or toks[c + 1].text != ")":
                    continue
                # receiver: walk back over ident / '.' tokens
                r = i - 1
                while r - 1 >= 0 and (toks[r - 1].kind == "id" or toks[r - 1].text == "."):
                    r -= 1
                if toks[r].text == ".":
                    r += 1
                hit = (r, i, pe, mclose, c + 1, toks[i + 4].text)
                break
        if hit is None:
            return text
        r, i, pe, mclose, end, kind = hit
        recv = text[toks[r].start:toks[i - 1].start].strip()
        recv = re.sub(r"\s+", "", recv)
        pat = text[toks[i + 6].end:toks[pe].start].strip()
        body = text[toks[pe].end:toks[mclose].start].strip()
        if kind == "map":
            repl = "{ let mut verif_out = Vec::new(); for %s in %s.iter() { verif_out.push(%s); } verif_out }" % (pat, recv, body)
        else:
            # filter_map: the closure is kept as a closure (its body may use `?`), called once per element; Some(v) is pushed
            repl = ("{ let mut verif_out = Vec::new(); for verif_x in %s.iter() { let verif_fm = verif_call1(verif_x, |%s| %s);\nif let Some(verif_v) = verif_fm { verif_out.push(verif_v); } } verif_out }"
                    % (recv, pat, body))
        text = text[:toks[r].start] + repl + text[toks[end].end:]
        log.append(("R17", where, "iter().%s(..).collect() over %s desugared into a loop" % (kind, recv)))


def desugar_chunks_map_collect(text, log, where):
    """R17g: `RECV.chunks_exact(N).map(|PAT| BODY).collect()` / `RECV.chunks(N)...` -> the loop it abbreviates over the chunk list
    returned by the stub verif_chunks_exact(&RECV, N) / verif_chunks_of(&RECV, N) (contracts/inc/std_chunks.vinc: exact std semantics
    of slice::chunks_exact / slice::chunks).  The closure body is kept verbatim and runs once per chunk, in order."""
    while True:
        toks = lex(text)
        hit = None
        for i in range(1, len(toks) - 10):
            if toks[i].text in ("chunks_exact", "chunks") and toks[i - 1].text == "." and toks[i + 1].text == "(":
                nclose = match_close(toks, i + 1)
                if toks[nclose + 1].text != "." or toks[nclose + 2].text != "map" or toks[nclose + 3].text != "(" or toks[nclose + 4].text != "|":
                    continue
                mclose = match_close(toks, nclose + 3)
                pe = nclose + 5
                while toks[pe].text != "|":
                    pe += 1
                if mclose + 4 >= len(toks) or toks[mclose + 1].text != "." or toks[mclose + 2].text != "collect" \
                        or toks[mclose + 3].text != "(" or toks[mclose + 4].text != ")":
                    continue
                # receiver: identifiers, '.', and balanced [..] index groups
                r = i - 1
                while r - 1 >= 0:
                    pt = toks[r - 1]
                    if pt.kind == "id" or pt.text == ".":
                        r -= 1
                    elif pt.text == "]":
                        depth, k = 0, r - 1
                        while k >= 0:
                            if toks[k].text == "]":
                                depth += 1
                            elif toks[k].text == "[":
                                depth -= 1
                                if depth == 0:
                                    break
                            k -= 1
                        r = k
                    else:
                        break
                hit = (r, i, nclose, pe, mclose)
                break
        if hit is None:
            return text
        r, i, nclose, pe, mclose = hit
        recv = re.sub(r"\s+", "", text[toks[r].start:toks[i - 1].start])
        n = text[toks[i + 1].end:toks[nclose].start].strip()
        pat = text[toks[nclose + 4].end:toks[pe].start].strip()
        body = text[toks[pe].end:toks[mclose].start].strip()
        fn = "verif_chunks_exact" if toks[i].text == "chunks_exact" else "verif_chunks_of"
        repl = ("{ let mut verif_out = Vec::new(); let verif_chunks = %s(&%s, %s); for verif_cx in verif_chunks.iter() { let %s = *verif_cx; verif_out.push(%s); } verif_out }"
                % (fn, recv, n, pat, body))
        text = text[:toks[r].start] + repl + text[toks[mclose + 4].end:]
        log.append(("R17g", where, "%s(%s).map(..).collect() over %s desugared into a loop" % (toks[i].text, n, recv)))


def desugar_for_each(text, log, where):
    """R17h: `RECV.iter().for_each(|PAT| BODY)` -> `for PAT in RECV.iter() { BODY; }` (the std definition of Iterator::for_each;
    a trailing `;` of the statement is kept)."""
    while True:
        toks = lex(text)
        hit = None
        for i in range(1, len(toks) - 8):
            if toks[i].text == "iter" and toks[i - 1].text == "." and toks[i + 1].text == "(" and toks[i + 2].text == ")" \
                    and toks[i + 3].text == "." and toks[i + 4].text == "for_each" and toks[i + 5].text == "(" and toks[i + 6].text == "|":
                mclose = match_close(toks, i + 5)
                pe = i + 7
                while toks[pe].text != "|":
                    pe += 1
                r = i - 1
                while r - 1 >= 0 and (toks[r - 1].kind in ("id", "num") or toks[r - 1].text == "."):
                    r -= 1
                if toks[r].text == ".":
                    r += 1
                hit = (r, i, pe, mclose)
                break
        if hit is None:
            return text
        r, i, pe, mclose = hit
        recv = re.sub(r"\s+", "", text[toks[r].start:toks[i - 1].start])
        pat = text[toks[i + 6].end:toks[pe].start].strip()
        body = text[toks[pe].end:toks[mclose].start].strip()
        repl = "for %s in %s.iter() {\n%s;\n}" % (pat, recv, body)
        end = toks[mclose].end
        if mclose + 1 < len(toks) and toks[mclose + 1].text == ";":
            end = toks[mclose + 1].end
        text = text[:toks[r].start] + repl + text[end:]
        log.append(("R17h", where, "iter().for_each(..) over %s desugared into a loop" % recv))


def desugar_let_chains(text, log, where):
    """R3: `if let P1 = E1 && let P2 = E2 && C { B }` without else -> nested if-let / if (equivalent)."""
    while True:
        toks = lex(text)
        hit = None
        for i, t in enumerate(toks):
            if not (t.kind == "id" and t.text == "if"):
                continue
            # condition runs to the '{' at depth 0
            j = i + 1
            ands = []
            has_let = False
            while j < len(toks) and not (toks[j].kind == "p" and toks[j].text == "{"):
                if toks[j].kind == "p" and toks[j].text in OPEN:
                    j = match_close(toks, j) + 1
                    continue
                if toks[j].text == "&&":
                    ands.append(j)
                if toks[j].kind == "id" and toks[j].text == "let":
                    has_let = True
                j += 1
            if j >= len(toks) or not ands or not has_let:
                continue
            # only chains where some segment after a && starts with let, or first is let
            segs = []
            prev = i + 1
            for a in ands + [j]:
                segs.append((prev, a))
                prev = a + 1
            if not any(toks[a].text == "let" for (a, b) in segs):
                continue
            bclose = match_close(toks, j)
            if bclose + 1 < len(toks) and toks[bclose + 1].text == "else":
                raise Lost("let-chain with else in %s is not supported (R3)" % where)
            hit = (i, segs, j, bclose)
            break
        if hit is None:
            return text
        i, segs, j, bclose = hit
        body = text[toks[j].start:toks[bclose].end]
        conds = [text[toks[a].start:toks[b - 1].end] for (a, b) in segs]
        out = body
        for c in reversed(conds):
            out = "if %s %s" % (c, out) if out is body else "if %s {\n%s\n}" % (c, out)
        text = text[:toks[i].start] + out + text[toks[bclose].end:]
        log.append(("R3", where, "let-chain of %d conditions desugared" % len(conds)))


def desugar_inclusive_range_for(text, log, where, both=False):
    """R21: `for PAT in A..=B { BODY }` (integer range, BODY without `continue`/`break`) -> the loop it abbreviates:
    `{ let verif_lo = A; let verif_hi = B; if verif_lo <= verif_hi { let mut verif_i = verif_lo; loop { let PAT = verif_i; BODY
       if verif_i == verif_hi { break; } verif_i += 1; } } }`
    Exact RangeInclusive semantics: both ends evaluated once, every value from A to B visited in order, nothing when A > B, and no
    overflow when B is the type's maximum (the increment is skipped after the last value).  This vstd has no ghost iterator for
    RangeInclusive.  Enabled by `@@ set rangeincl loop`."""
    while True:
        toks = lex(text)
        hit = None
        for i, t in enumerate(toks):
            if not (t.kind == "id" and t.text == "for"):
                continue
            j = i + 1
            while j < len(toks) and not (toks[j].kind == "id" and toks[j].text == "in"):
                if toks[j].text in OPEN:
                    j = match_close(toks, j)
                j += 1
            if j >= len(toks):
                continue
            k = j + 1
            dots = None
            while k < len(toks) and toks[k].text != "{":
                if toks[k].text in ("(", "["):
                    k = match_close(toks, k)
                elif toks[k].text == "..=" or (both and toks[k].text == ".."):
                    dots = k
                k += 1
            if k >= len(toks) or dots is None:
                continue
            bclose = match_close(toks, k)
            inner = toks[k + 1:bclose]
            if any(x.kind == "id" and x.text in ("continue", "break") for x in inner):
                continue
            hit = (i, j, dots, k, bclose)
            break
        if hit is None:
            return text
        i, j, dots, k, bclose = hit
        pat = text[toks[i].end:toks[j].start].strip()
        a = text[toks[j].end:toks[dots].start].strip()
        b = text[toks[dots].end:toks[k].start].strip()
        body = text[toks[k].end:toks[bclose].start]
        if toks[dots].text == "..=":
            repl = ("{ let verif_lo = %s; let verif_hi = %s; if verif_lo <= verif_hi { let mut verif_i = verif_lo; loop { let %s = verif_i;%s"
                    "if verif_i == verif_hi { break; } verif_i += 1; } } }" % (a, b, pat, body))
        else:
            # `both`: the half-open range in the same shape (so that a loop contract written for `..=` judges `..` instead of losing
            # its anchor): verif_i < verif_hi inside the loop, hence verif_i + 1 cannot overflow
            repl = ("{ let verif_lo = %s; let verif_hi = %s; if verif_lo < verif_hi { let mut verif_i = verif_lo; loop { let %s = verif_i;%s"
                    "if verif_i + 1 == verif_hi { break; } verif_i += 1; } } }" % (a, b, pat, body))
        text = text[:toks[i].start] + repl + text[toks[bclose].end:]
        log.append(("R21", where, "for %s in %s%s%s desugared into a loop" % (pat, a, toks[dots].text, b)))


def eliminate_tail_continue(text, log, where):
    """R20: inside a `for` body, a `continue` that is the last thing executed on its path through the body (tail position:
    last statement of the body, recursively through trailing if/else branches and match arms) is replaced by the empty
    block / dropped.  Equivalent: control reaches the end of the body, which is what `continue` does.  Verus does not
    accept `continue` inside for-loops.  A `continue` anywhere else is left alone (Verus then rejects the file -> undecided)."""
    toks = lex(text)
    edits = []   # (start, end, replacement)

    def tail_block(o, c):
        """toks[o] = '{', toks[c] = matching '}'"""
        k = c - 1
        if k <= o:
            return
        if toks[k].text == ";":
            if toks[k - 1].kind == "id" and toks[k - 1].text == "continue" and (k - 2 == o or toks[k - 2].text in (";", "}", "{")):
                edits.append((toks[k - 1].start, toks[k].end, ""))
            return
        if toks[k].kind == "id" and toks[k].text == "continue" and (k - 1 == o or toks[k - 1].text in (";", "}", "{")):
            edits.append((toks[k].start, toks[k].end, ""))
            return
        if toks[k].text != "}":
            return
        # block-like trailing statement: find its start (after the previous depth-0 `;` / block end that is not part of it)
        groups = []  # depth-0 brace groups of the statement, scanning backwards
        j = k
        while j > o:
            t = toks[j]
            if t.kind == "p" and t.text in CLOSE:
                # jump to its opener
                depth = 0
                m = j
                while True:
                    if toks[m].kind == "p" and toks[m].text in CLOSE:
                        depth += 1
                    elif toks[m].kind == "p" and toks[m].text in OPEN:
                        depth -= 1
                        if depth == 0:
                            break
                    m -= 1
                if t.text == "}":
                    groups.append((m, j))
                j = m - 1
                continue
            if t.text == ";":
                break
            j -= 1
        start = j + 1
        # a preceding block-like statement may have been swallowed: keep only the groups from the last statement keyword on
        kw = None
        for q in range(start, k):
            if toks[q].kind == "id" and toks[q].text in ("if", "match") and all(not (a < q < b) for (a, b) in groups):
                # the first keyword at depth 0 whose groups extend to k
                kw = q
                break
        if kw is None:
            return
        gs = sorted(g for g in groups if g[0] > kw)
        # make sure every token between consecutive groups is `else` / `else if cond` (if) -- otherwise not one statement
        if toks[kw].text == "if":
            for (a, b), (a2, b2) in zip(gs, gs[1:]):
                if toks[b + 1].text != "else":
                    # statement boundary inside: restart after this group
                    return tail_from(b + 1, c)
            if len(gs) >= 1:
                for (a, b) in gs:
                    tail_block(a, b)
        else:
            if len(gs) != 1:
                return tail_from(gs[-2][1] + 1, c) if len(gs) >= 2 else None
            a, b = gs[0]
            q = a + 1
            while q < b:
                # pattern up to `=>`
                while q < b and toks[q].text != "=>":
                    if toks[q].kind == "p" and toks[q].text in OPEN:
                        q = match_close(toks, q)
                    q += 1
                if q >= b:
                    break
                q += 1
                if toks[q].text == "{":
                    e = match_close(toks, q)
                    tail_block(q, e)
                    q = e + 1
                    if q < b and toks[q].text == ",":
                        q += 1
                    continue
                if toks[q].kind == "id" and toks[q].text == "continue" and (toks[q + 1].text == "," or q + 1 == b):
                    edits.append((toks[q].start, toks[q].end, "{}"))
                while q < b and toks[q].text != ",":
                    if toks[q].kind == "p" and toks[q].text in OPEN:
                        q = match_close(toks, q)
                    q += 1
                q += 1

    def tail_from(lo, c):
        # toks[lo..c) are the remaining statements of a block closed at c: the token before lo acts as the opener
        return tail_block(lo - 1, c)

    for i, t in enumerate(toks):
        if t.kind == "id" and t.text == "for" and not (i > 0 and toks[i - 1].text == ".") and not (i + 1 < len(toks) and toks[i + 1].text == "<"):
            j = i + 1
            while j < len(toks) and not (toks[j].kind == "p" and toks[j].text == "{"):
                if toks[j].kind == "p" and toks[j].text in OPEN:
                    j = match_close(toks, j)
                j += 1
            if j >= len(toks):
                continue
            tail_block(j, match_close(toks, j))
    if not edits:
        return text
    for a, b, r in sorted(set(edits), reverse=True):
        text = text[:a] + r + text[b:]
    log.append(("R20", where, "%d tail-position `continue` in for-loop bodies removed" % len(set(edits))))
    return text


def rewrite_sql(u, fnpath, text, log):
    """R7: self.conn.query_row(<lit>, params![a..], <closure>)[.optional()|.or_else(map_no_row_to_none)] and
    self.conn.execute(<lit>, params![a..]) -> self.<stub>(a..); the stub (assumed contract, validated by engine B)
    is chosen by (function, ordinal) from the `@@ sql` table; the literal's hash is recorded."""
    import hashlib
    n = 0
    while True:
        toks = lex(text)
        hit = None
        for i in range(len(toks) - 6):
            if toks[i].text == "self" and toks[i + 1].text == "." and toks[i + 2].text == "conn" and toks[i + 3].text == "." \
                    and toks[i + 4].text in ("query_row", "execute") and toks[i + 5].text == "(":
                hit = i
                break
        hitb = None
        for i in range(len(toks) - 6):
            if toks[i].text == "self" and toks[i + 1].text == "." and toks[i + 2].text == "conn" and toks[i + 3].text == "." \
                    and toks[i + 4].text == "prepare_cached" and toks[i + 5].text == "(":
                hitb = i
                break
        if hit is None and hitb is None:
            return text
        if hitb is not None and (hit is None or hitb < hit):
            # R7b: self.conn.prepare_cached(<lit>) ... .query_map(params![..], <closure>) ... .collect::<..>() [.map_err(..)]
            i = hitb
            n += 1
            close = match_close(toks, i + 5)
            lit = split_args(text[toks[i + 5].end:toks[close].start])[0]
            sha = hashlib.sha256(re.sub(r"\s+", " ", lit).encode()).hexdigest()[:12]
            # walk the method chain
            j = close + 1
            params = None
            end = None
            while j + 2 < len(toks) and toks[j].text in (".", "?"):
                if toks[j].text == "?":
                    j += 1
                    continue
                name = toks[j + 1].text
                k = j + 2
                if toks[k].text == "::":
                    while toks[k].text != "(":
                        k += 1
                if toks[k].text != "(":
                    break
                kc = match_close(toks, k)
                if name == "query_map":
                    qa = split_args(text[toks[k].end:toks[kc].start])
                    m = re.match(r"^\s*rusqlite::params!\s*\[(.*)\]\s*$", qa[0], re.S)
                    params = split_args(m.group(1)) if m else []
                if name == "collect":
                    end = kc
                    # absorb one following .map_err(..)
                    if kc + 3 < len(toks) and toks[kc + 1].text == "." and toks[kc + 2].text == "map_err" and toks[kc + 3].text == "(":
                        end = match_close(toks, kc + 3)
                    break
                j = kc + 1
            if end is None or params is None:
                raise Lost("unrecognised prepare_cached/query_map chain in %s statement #%d" % (fnpath, n))
            ent = u.sqlmap.get((fnpath, n))
            if ent is None:
                raise Lost("SQL statement #%d in %s has no `@@ sql` entry" % (n, fnpath))
            u.sqlseen.append(dict(fn=fnpath, n=n, stub=ent["stub"], sha=sha, pinned=ent["sha"], sql=re.sub(r"\s+", " ", lit)[:200], suffix=".query_map(..).collect()"))
            text = text[:toks[i].start] + "self.%s(%s)" % (ent["stub"], ", ".join(params)) + text[toks[end].end:]
            log.append(("R7", fnpath, "SQL #%d (prepare_cached/query_map/collect) -> %s sha=%s" % (n, ent["stub"], sha)))
            continue
        i = hit
        n += 1
        close = match_close(toks, i + 5)
        inner = text[toks[i + 5].end:toks[close].start]
        args = split_args(inner)
        lit = args[0]
        sha = hashlib.sha256(re.sub(r"\s+", " ", lit).encode()).hexdigest()[:12]
        params = []
        m = re.match(r"^\s*rusqlite::params!\s*\[(.*)\]\s*$", args[1], re.S) if len(args) > 1 else None
        if m:
            params = split_args(m.group(1))
        elif len(args) > 1 and args[1].strip() not in ("[]", "()"):
            raise Lost("unrecognised SQL parameter list in %s statement #%d" % (fnpath, n))
        end = close
        # optional suffix
        suffix = ""
        if end + 4 < len(toks) and toks[end + 1].text == "." and toks[end + 2].text == "optional" and toks[end + 3].text == "(" and toks[end + 4].text == ")":
            end = end + 4
            suffix = ".optional()"
        elif end + 3 < len(toks) and toks[end + 1].text == "." and toks[end + 2].text == "or_else" and toks[end + 3].text == "(":
            c2 = match_close(toks, end + 3)
            if "map_no_row_to_none" in text[toks[end + 3].start:toks[c2].end]:
                end = c2
                suffix = ".or_else(map_no_row_to_none)"
        ent = u.sqlmap.get((fnpath, n))
        if ent is None:
            raise Lost("SQL statement #%d in %s has no `@@ sql` entry" % (n, fnpath))
        u.sqlseen.append(dict(fn=fnpath, n=n, stub=ent["stub"], sha=sha, pinned=ent["sha"], sql=re.sub(r"\s+", " ", lit)[:200], suffix=suffix))
        repl = "self.%s(%s)" % (ent["stub"], ", ".join(params))
        text = text[:toks[i].start] + repl + text[toks[end].end:]
        log.append(("R7", fnpath, "SQL #%d -> %s%s sha=%s%s" % (n, ent["stub"], suffix, sha, "" if ent["sha"] in (None, sha) else " (CHANGED since pinned %s)" % ent["sha"])))


def rebind_self(text, log, where):
    """R15b: `fn f(mut self, ..)` / `fn f(self, ..)` whose body mutates self -> `fn f(self, ..) { let mut verif_self = self; .. }`
    with every later `self` token renamed (Verus rejects `mut self`; by-value self is immutable)."""
    p = fn_parts(text)
    toks = p["toks"]
    i = p["params_open"] + 1
    edits = []
    if toks[i].text == "mut" and toks[i + 1].text == "self":
        edits.append((toks[i].start, toks[i + 1].start, ""))
    elif toks[i].text != "self":
        return text
    bo, bc = p["body_open"], p["body_close"]
    for k in range(bo + 1, bc):
        if toks[k].kind == "id" and toks[k].text == "self":
            edits.append((toks[k].start, toks[k].end, "verif_self"))
    ins = toks[bo].end
    out = text
    for (a, b, r) in sorted(edits, reverse=True):
        if a >= ins:
            out = out[:a] + r + out[b:]
    out = out[:ins] + "\n        let mut verif_self = self;" + out[ins:]
    for (a, b, r) in sorted(edits, reverse=True):
        if a < ins:
            out = out[:a] + r + out[b:]
    log.append(("R15b", where, "by-value self rebound to mutable local verif_self"))
    return out


def add_call_ghosts(u, fnpath, text, log):
    """R19: calls `callee(FIRST, ...)` inside fnpath get one more argument `Ghost(EXPR)`; executable arguments are untouched.
    The stub of the callee states its emission-point precondition over that ghost value."""
    for cg in u.callghost:
        if cg["fn"] != fnpath:
            continue
        pos = 0
        while True:
            toks = lex(text)
            hit = None
            for i, t in enumerate(toks):
                if t.start < pos:
                    continue
                if t.kind == "id" and t.text == cg["callee"] and i + 1 < len(toks) and toks[i + 1].text == "(" and (i == 0 or toks[i - 1].text != "fn"):
                    close = match_close(toks, i + 1)
                    args = split_args(text[toks[i + 1].end:toks[close].start])
                    if args and norm_ws(args[0]) == norm_ws(cg["first"]):
                        hit = (i, close)
                        break
            if hit is None:
                break
            i, close = hit
            ins = toks[close].start
            # trailing comma?
            before = text[:ins].rstrip()
            sep = "" if before.endswith(",") else ", "
            add = "%sGhost(%s)" % (sep, cg["ghost"])
            text = text[:ins] + add + text[ins:]
            pos = ins + len(add) + 1
            cg["count"] += 1
            log.append(("R19", fnpath, "ghost argument added to a call of %s(%s, ..)" % (cg["callee"], cg["first"])))
    return text


def desugar_range_map_filter_collect(text, log, where):
    """R17b: `(RANGE).map(|X| E).filter(|Y| P).collect::<T>()` -> the loop it abbreviates:
    `{ let mut verif_out = <T>::default(); for X in RANGE { let verif_item = E; if { let Y = &verif_item; P } { verif_out.insert(verif_item); } } verif_out }`
    (Iterator adapters are lazy and element-wise: map, then filter on a reference, then Extend::extend = insert)."""
    toks = lex(text)
    for i in range(len(toks) - 8):
        if toks[i].text != "(":
            continue
        rc = match_close(toks, i)
        inner = text[toks[i].end:toks[rc].start]
        if ".." not in inner or rc + 3 >= len(toks):
            continue
        if not (toks[rc + 1].text == "." and toks[rc + 2].text == "map" and toks[rc + 3].text == "("):
            continue
        mc = match_close(toks, rc + 3)
        if not (toks[mc + 1].text == "." and toks[mc + 2].text == "filter" and toks[mc + 3].text == "("):
            continue
        fc = match_close(toks, mc + 3)
        if not (toks[fc + 1].text == "." and toks[fc + 2].text == "collect" and toks[fc + 3].text == "::"):
            continue
        k = fc + 4
        assert toks[k].text == "<"
        depth = 0
        j = k
        while True:
            if toks[j].text == "<":
                depth += 1
            elif toks[j].text == ">":
                depth -= 1
            elif toks[j].text == ">>":
                depth -= 2
            if depth <= 0:
                break
            j += 1
        ty = text[toks[k].end:toks[j].start].strip()
        if not (toks[j + 1].text == "(" and toks[j + 2].text == ")"):
            continue

        def closure(o, c):
            # tokens o..c are '(' ... ')' around `|pat| body`
            a = o + 1
            assert toks[a].text == "|"
            b = a + 1
            while toks[b].text != "|":
                b += 1
            return text[toks[a].end:toks[b].start].strip(), text[toks[b].end:toks[c].start].strip()
        mx, me = closure(rc + 3, mc)
        fy, fp = closure(mc + 3, fc)
        # comments inside the closures would swallow the rest of a line: keep newlines
        repl = ("{ let mut verif_out = <%s>::default();\nfor %s in %s {\nlet verif_item = %s;\nif { let %s = &verif_item;\n%s\n} { verif_out.insert(verif_item); }\n}\nverif_out }"
                % (ty, mx, inner.strip(), me, fy, fp))
        text = text[:toks[i].start] + repl + text[toks[j + 2].end:]
        log.append(("R17b", where, "range.map.filter.collect::<%s>() desugared into a loop" % ty))
        return text
    return text


def desugar_any_find_map(text, log, where):
    """R17d: `RECV.iter().any(|PAT| BODY)` -> `{ let mut verif_any = false; for PAT in RECV.iter() { verif_any = verif_any || { BODY }; } verif_any }`
    R17e: `RECV.iter().find_map(|PAT| BODY)` -> `{ let mut verif_found = None; for PAT in RECV.iter() { if verif_found.is_none() { verif_found = BODY; } } verif_found }`
    Equivalent by the std definitions: the closure body is evaluated for the elements up to and including the first hit and for no
    later one (`||` / the is_none() test short-circuit exactly like any()/find_map()); what is dropped is the early exit of the loop."""
    while True:
        toks = lex(text)
        hit = None
        for i in range(1, len(toks) - 8):
            if toks[i].text == "iter" and toks[i - 1].text == "." and toks[i + 1].text == "(" and toks[i + 2].text == ")" \
                    and toks[i + 3].text == "." and toks[i + 4].text in ("any", "find_map", "find") and toks[i + 5].text == "(" and toks[i + 6].text == "|":
                mclose = match_close(toks, i + 5)
                pe = i + 7
                while toks[pe].text != "|":
                    pe += 1
                r = i - 1
                while r - 1 >= 0 and (toks[r - 1].kind == "id" or toks[r - 1].text == "."):
                    r -= 1
                if toks[r].text == ".":
                    r += 1
                hit = (r, i, pe, mclose, toks[i + 4].text)
                break
        if hit is None:
            return text
        r, i, pe, mclose, kind = hit
        recv = re.sub(r"\s+", "", text[toks[r].start:toks[i - 1].start].strip())
        pat = text[toks[i + 6].end:toks[pe].start].strip()
        body = text[toks[pe].end:toks[mclose].start].strip()
        if kind == "any":
            repl = "{ let mut verif_any = false;\nfor %s in %s.iter() {\nverif_any = verif_any || { %s };\n}\nverif_any }" % (pat, recv, body)
        elif kind == "find":
            # R17f: find(|PAT| P) -- the predicate sees a reference to the item, the result is the first item satisfying it
            repl = ("{ let mut verif_found = None;\nfor verif_x in %s.iter() {\nif verif_found.is_none() && { let %s = &verif_x; %s } { verif_found = Some(verif_x); }\n}\nverif_found }"
                    % (recv, pat, body))
        else:
            repl = "{ let mut verif_found = None;\nfor %s in %s.iter() {\nif verif_found.is_none() { verif_found = %s; }\n}\nverif_found }" % (pat, recv, body)
        text = text[:toks[r].start] + repl + text[toks[mclose].end:]
        log.append(({"any": "R17d", "find_map": "R17e", "find": "R17f"}[kind], where, "iter().%s(..) over %s desugared into a loop" % (kind, recv)))


def desugar_map_fold(text, log, where):
    """R17c: `X.iter().map(F).fold(INIT, |mut ACC, E| { BODY ACC })` -> `{ let mut ACC = INIT; for verif_x in X.iter() { let E = F(verif_x); BODY } ACC }`
    (F a path to a function; the fold closure must end with the accumulator as its value)."""
    toks = lex(text)
    for i in range(1, len(toks) - 10):
        if not (toks[i].text == "iter" and toks[i - 1].text == "." and toks[i + 1].text == "(" and toks[i + 2].text == ")"
                and toks[i + 3].text == "." and toks[i + 4].text == "map" and toks[i + 5].text == "("):
            continue
        mc = match_close(toks, i + 5)
        if not (toks[mc + 1].text == "." and toks[mc + 2].text == "fold" and toks[mc + 3].text == "("):
            continue
        fc = match_close(toks, mc + 3)
        f = text[toks[i + 5].end:toks[mc].start].strip()
        if "|" in f:
            continue
        args = split_args(text[toks[mc + 3].end:toks[fc].start])
        if len(args) < 2:
            continue
        init, clo = args[0], ", ".join(args[1:])   # the closure's own parameter list contains a top-level comma
        m = re.match(r"^\|\s*mut\s+(\w+)\s*,\s*(\w+)\s*\|\s*\{(.*)\}\s*$", clo, re.S)
        if not m:
            continue
        acc, e, body = m.group(1), m.group(2), m.group(3).strip()
        if not re.search(r"\b%s\s*$" % re.escape(acc), body):
            continue
        body = re.sub(r"\b%s\s*$" % re.escape(acc), "", body).rstrip()
        r = i - 1
        while r - 1 >= 0 and (toks[r - 1].kind == "id" or toks[r - 1].text == "."):
            r -= 1
        if toks[r].text == ".":
            r += 1
        recv = re.sub(r"\s+", "", text[toks[r].start:toks[i - 1].start])
        repl = "{ let mut %s = %s;\nfor verif_x in %s.iter() {\nlet %s = %s(verif_x);\n%s\n}\n%s }" % (acc, init.strip(), recv, e, f, body, acc)
        text = text[:toks[r].start] + repl + text[toks[fc].end:]
        log.append(("R17c", where, "iter().map(%s).fold(..) over %s desugared into a loop" % (f, recv)))
        return text
    return text


def annotate_closures(u, fnpath, text, log):
    """R13: give a closure an explicit Verus header (parameter types, requires/ensures); the body is
    kept verbatim (wrapped in a block when it is a bare expression)."""
    for c in u.closures:
        if c["fn"] != fnpath:
            continue
        pos = -1
        for _ in range(c["nth"]):
            pos = text.find(c["anchor"], pos + 1)
            if pos < 0:
                raise Lost("closure anchor %r not found in %s (%s:%d)" % (c["anchor"], fnpath, u.vcpath, c["line"]))
        toks = lex(text)
        k = None
        for i, t in enumerate(toks):
            if t.start >= pos and t.kind == "p" and t.text in ("|", "||"):
                k = i
                break
        if k is None:
            raise Lost("no closure after anchor %r in %s" % (c["anchor"], fnpath))
        if toks[k].text == "||":
            pe = k
        else:
            pe = k + 1
            while not (toks[pe].kind == "p" and toks[pe].text == "|"):
                if toks[pe].kind == "p" and toks[pe].text in OPEN:
                    pe = match_close(toks, pe)
                pe += 1
        b = pe + 1
        if toks[b].text == "{":
            be = match_close(toks, b)
            body = text[toks[b].start:toks[be].end]
            end = toks[be].end
        else:
            j = b
            while j < len(toks):
                tj = toks[j]
                if tj.kind == "p" and tj.text in OPEN:
                    j = match_close(toks, j) + 1
                    continue
                if tj.kind == "p" and tj.text in (")", "]", "}", ",", ";"):
                    break
                j += 1
            end = toks[j - 1].end
            body = "{ " + text[toks[b].start:end] + " }"
        hdr = "\n".join("/*@closure %s*/ %s" % (vctag(u, c["line"] + 1 + n), l) for n, l in enumerate(c["text"].split("\n")))
        text = text[:toks[k].start] + "\n" + hdr + "\n" + body + text[end:]
        log.append(("R13", fnpath, "closure header annotated (%s)" % vctag(u, c["line"])))
    return text


def process_fn(u, fnpath, text, log, origin, canary=None):
    """apply R1,R2,R4,substs; splice spec/loop/hints.  returns new text and clause line info"""
    settings = u.settings
    # per-function override: `@@ set format@<fnpath> keep|stub|stubdrop`
    over = {k.split("@", 1)[0]: v for k, v in settings.items() if k.endswith("@" + fnpath)}
    if over:
        settings = dict(settings)
        settings.update(over)
    text = rewrite_quals(text, log, fnpath)
    text = demut_params(text, log, fnpath)
    text = rewrite_macros(text, log, fnpath, settings)
    text = rewrite_be_bytes(text, log, fnpath)
    text = rewrite_splice(text, log, fnpath)
    if settings.get("subvec") == "stub":
        text = rewrite_subvec(text, log, fnpath)
    if settings.get("mapcollect") == "loop":
        text = desugar_map_collect(text, log, fnpath)
        text = desugar_chunks_map_collect(text, log, fnpath)
        text = desugar_for_each(text, log, fnpath)
        text = desugar_range_map_filter_collect(text, log, fnpath)
        text = desugar_map_fold(text, log, fnpath)
        text = desugar_any_find_map(text, log, fnpath)
    if u.sqlmap:
        text = rewrite_sql(u, fnpath, text, log)
    if fnpath in u.mutself:
        text = rebind_self(text, log, fnpath)
    if settings.get("letchains") == "nest":
        text = desugar_let_chains(text, log, fnpath)
    if settings.get("rangeincl") in ("loop", "both"):
        text = desugar_inclusive_range_for(text, log, fnpath, both=(settings.get("rangeincl") == "both"))
    if settings.get("tailcontinue") == "drop":
        text = eliminate_tail_continue(text, log, fnpath)
    text = apply_substs(u, fnpath, text, log)
    text = name_wildcard_closure_params(text, log, fnpath)
    text = add_call_ghosts(u, fnpath, text, log)
    # hints first: every anchor is resolved on the text as extracted (before any hint is
    # inserted), then the insertions are made bottom-up
    lines = text.split("\n")
    todo = []
    for hn, h in enumerate(u.hints):
        if h["fn"] != fnpath:
            continue
        hits = [i for i, l in enumerate(lines) if h["anchor"] in l]
        if len(hits) < h["nth"]:
            if h.get("opt"):
                log.append(("hint-skipped", fnpath, "%s: anchor statement absent" % vctag(u, h["line"])))
                continue
            raise Lost("hint anchor %r (#%d) not found in %s (%s)" % (h["anchor"], h["nth"], fnpath, vctag(u, h["line"])))
        at = hits[h["nth"] - 1] + h.get("plus", 0)
        ins = h["text"].split("\n")
        ins = ["/*@hint %s*/ %s" % (vctag(u, h["line"] + 1 + k), l) for k, l in enumerate(ins)]
        pos = at if h["where"] == "before" else at + 1
        todo.append((pos, hn, ins))
    for pos, hn, ins in sorted(todo, key=lambda x: (x[0], x[1]), reverse=True):
        lines[pos:pos] = ins
    text = "\n".join(lines)
    text = annotate_closures(u, fnpath, text, log)
    # loops (from last to first so offsets stay valid)
    p = fn_parts(text)
    toks = p["toks"]
    lps = loop_positions(text, toks[p["body_open"]].start, toks[p["body_close"]].start)
    want = sorted([n for (f, n) in u.loops if f == fnpath], reverse=True)
    for n in want:
        if n > len(lps):
            if (fnpath, n) in u.optloops:
                # `@@ loop F n opt`: the contract is attached only if the loop exists (used where an earlier, loop-free version of the
                # code must still be judged by the function's contract instead of being reported as a lost anchor)
                log.append(("opt-loop", fnpath, "loop #%d absent: its contract was not attached" % n))
                continue
            raise Lost("loop #%d not found in %s (has %d loops)" % (n, fnpath, len(lps)))
        ltext, lline = u.loops[(fnpath, n)]
        kwoff, off, kw = lps[n - 1]
        if kw == "for" and "verif_it" in ltext:
            # R16: name the for-loop iterator (Verus syntax `for x in verif_it: e`) so that the
            # contract can mention it; the iterated expression is unchanged
            ltoks = lex(text[kwoff:off])
            depth_in = None
            for li, lt in enumerate(ltoks):
                if lt.kind == "p" and lt.text in OPEN:
                    continue
                if lt.kind == "id" and lt.text == "in":
                    depth_in = lt
                    break
            if depth_in is None:
                raise Lost("for-loop header of loop #%d in %s has no `in`" % (n, fnpath))
            ins = kwoff + depth_in.end
            if "verif_src" in ltext:
                # R16b: hoist the iterated expression into `let verif_src<n> = EXPR;` in front of the loop (evaluated once,
                # at the same point, as `for` does) so that the contract can capture the iterator's ghost state before
                # the loop; `pre:` lines of the loop contract are placed between that let and the `for`
                expr = text[ins:off].strip()
                pre = [l[4:].strip() for l in ltext.split("\n") if l.startswith("pre:")]
                ltext = "\n".join(l for l in ltext.split("\n") if not l.startswith("pre:"))
                var = "verif_src%d" % n
                head = ("let %s = %s;\n" % (var, expr)) + "".join("/*@loop %s*/ %s\n" % (vctag(u, lline), l) for l in pre)
                newfor = text[kwoff:ins] + " verif_it: " + var + " "
                text = text[:kwoff] + head + newfor + text[off:]
                off = kwoff + len(head) + len(newfor)
                log.append(("R16b", fnpath, "for-loop #%d: iterated expression hoisted into `let %s`" % (n, var)))
            else:
                text = text[:ins] + " verif_it:" + text[ins:]
                off += len(" verif_it:")
            log.append(("R16", fnpath, "for-loop #%d iterator named verif_it" % n))
        tagged = "\n".join("/*@loop %s*/ %s" % (vctag(u, lline + 1 + k), l) for k, l in enumerate(ltext.split("\n")))
        text = text[:off] + "\n" + tagged + "\n" + text[off:]
    # signature
    spec = u.specs.get(fnpath)
    if canary is not None:
        spec = dict(text=canary["text"], ret=(spec or {}).get("ret", "ret"), line=canary["line"], attrs=(spec or {}).get("attrs", ""))
    if spec is not None:
        p = fn_parts(text)
        toks = p["toks"]
        bo = toks[p["body_open"]].start
        head = text[:bo]
        if p["arrow"] is not None:
            a_end = toks[p["arrow"]].end
            t_end = toks[p["where"]].start if p["where"] is not None else bo
            rtype = text[a_end:t_end].strip()
            head = text[:a_end] + " (" + spec["ret"] + ": " + rtype + ")\n" + (text[t_end:bo] if p["where"] is not None else "")
        tagged = "\n".join("/*@spec %s*/ %s" % (vctag(u, spec["line"] + 1 + k), l) for k, l in enumerate(spec["text"].split("\n")))
        text = head.rstrip() + "\n" + tagged + "\n" + text[bo:]
        if spec.get("attrs"):
            text = spec["attrs"] + "\n" + text
    return text


def rename_fn(text, new):
    p = fn_parts(text)
    t = p["name"]
    return text[:t.start] + new + text[t.end:]


def clone_ax(name, generics=""):
    return ("impl%s Clone for %s%s {\n    #[verifier::external_body]\n    fn clone(&self) -> (r: Self)\n        ensures r == *self,\n    { unimplemented!() }\n}\n"
            % (generics, name, generics))


class Assembler:
    def __init__(self, unit, repo=REPO):
        self.u = unit
        self.repo = repo
        self.srcs = {}
        self.chunks = []   # (text, origin, fnpath)
        self.log = []
        self.functions = []  # dict(path, origin, has_spec, canary)

    def src(self, alias):
        if alias not in self.srcs:
            if alias not in self.u.sources:
                raise SystemExit("unknown source alias %s" % alias)
            path = os.path.join(self.repo, self.u.sources[alias])
            if not os.path.exists(path):
                raise Lost("source file %s missing" % path)
            try:
                self.srcs[alias] = Source(self.u.sources[alias], open(path).read())
            except LexError as e:
                raise Lost("cannot lex %s: %s" % (path, e))
        return self.srcs[alias]

    def emit(self, text, origin, fnpath=None):
        self.chunks.append((text, origin, fnpath))

    def add_fn(self, fnpath, text, origin, indent=""):
        body = process_fn(self.u, fnpath, text, self.log, origin)
        self.functions.append(dict(path=fnpath, origin=origin, has_spec=fnpath in self.u.specs, canary=False))
        self.emit(body, origin, fnpath)
        for c in self.u.canaries:
            if c["fn"] == fnpath:
                c["used"] = True
                cname = fnpath.split("::")[-1] + "__canary%d" % c["line"]
                ctext = process_fn(self.u, fnpath, text, [], origin, canary=c)
                ctext = rename_fn(ctext, cname)
                cpath = "::".join(fnpath.split("::")[:-1] + [cname])
                self.functions.append(dict(path=cpath, origin=origin, has_spec=True, canary=True))
                self.emit(ctext, "canary of " + origin, cpath)

    def run(self):
        u = self.u
        for d in u.seq:
            k = d["kind"]
            if k == "verus":
                self.emit(d["text"], d.get("origin") or vctag(u, d["line"] + 1), None)
            elif k == "item":
                s = self.src(d["src"])
                its = s.find_top(d["ikind"], d["name"])
                if not its:
                    raise Lost("%s %s not found in %s" % (d["ikind"], d["name"], s.path))
                it = its[0]
                text, off = strip_attrs(s, it)
                text = rewrite_quals(text, self.log, d["name"])
                if d.get("new"):
                    text = re.sub(r"\b%s\b" % re.escape(d["name"]), d["new"], text, count=1)
                    self.log.append(("rename", d["name"], "item renamed to %s (name clash inside the single-file unit)" % d["new"]))
                if d["ikind"] == "struct":
                    text = pub_fields(text, self.log, d["name"])
                text = apply_substs(u, d["name"], text, self.log)
                pre = ""
                for o in d["opts"]:
                    if o.startswith("derive("):
                        pre += "#[%s]\n" % o
                    if o.startswith("attr:"):
                        pre += "#[%s]\n" % o[5:]
                self.emit(pre + text, "%s:%d" % (s.path, s.line_of(off)), None)
                if "clone" in d["opts"]:
                    g = ""
                    m = re.match(r".*?\b%s\s*(<[^>{(]*>)" % re.escape(d["name"]), text, re.S)
                    if m and text.find(m.group(1)) < text.find("{" if "{" in text else ";"):
                        g = m.group(1)
                    self.emit(clone_ax(d["name"], g), "R12 clone axiom for %s" % d["name"], None)
                    self.log.append(("R12", d["name"], "derived Clone assumed structural"))
            elif k == "fn":
                s = self.src(d["src"])
                if d.get("inmod"):
                    ms = s.mods(d["inmod"])
                    if not ms:
                        raise Lost("mod %s not found in %s" % (d["inmod"], s.path))
                    from rustlex import scan_items
                    cands = [it for it in scan_items(s.toks, ms[0].body_open + 1, ms[0].last) if it.kind == "fn" and it.name == d["name"]]
                else:
                    cands = s.find_top("fn", d["name"])
                if not cands:
                    raise Lost("fn %s not found in %s" % (d["name"], s.path))
                text, off = strip_attrs(s, cands[0])
                if d["new"] != d["name"]:
                    text = rename_fn(text, d["new"])
                self.add_fn(d["new"], text, "%s:%d" % (s.path, s.line_of(off)))
            elif k == "impl":
                s = self.src(d["src"])
                impls = s.impls(type_name=d["type"])
                if not impls:
                    raise Lost("inherent impl of %s not found in %s" % (d["type"], s.path))
                hdr = s.impl_header(impls[0])
                self.emit(hdr + " {", "%s:%d" % (s.path, s.line_of(impls[0].start)), None)
                for m in d["methods"]:
                    found = None
                    for im in impls:
                        for it in s.members(im):
                            if it.kind in ("fn", "const", "type") and it.name == m:
                                found = it
                                break
                        if found:
                            break
                    if not found:
                        raise Lost("%s::%s not found in %s" % (d["type"], m, s.path))
                    text, off = strip_attrs(s, found)
                    if found.kind == "fn":
                        self.add_fn("%s::%s" % (d["type"], m), text, "%s:%d" % (s.path, s.line_of(off)))
                    else:
                        self.emit(rewrite_quals(text, self.log, m), "%s:%d" % (s.path, s.line_of(off)), None)
                self.emit("}", "generated", None)
            elif k == "traitimpl":
                s = self.src(d["src"])
                impls = s.impls(header=d["header"])
                if not impls:
                    raise Lost("impl block %r not found in %s" % (d["header"], s.path))
                tgt = d["target"]
                if tgt != "-":
                    self.emit("impl %s {" % tgt, "generated (R8)", None)
                for (m, new) in d["methods"]:
                    found = [it for it in s.members(impls[0]) if it.kind == "fn" and it.name == m]
                    if not found:
                        raise Lost("%s in impl %r not found" % (m, d["header"]))
                    text, off = strip_attrs(s, found[0])
                    if new != m:
                        text = rename_fn(text, new)
                    self.log.append(("R8", new, "trait method of `%s` extracted as inherent/free fn" % d["header"]))
                    path = new if tgt == "-" else "%s::%s" % (tgt.split("<")[0], new)
                    if tgt != "-" and not text.lstrip().startswith("pub"):
                        pass
                    self.add_fn(path, text, "%s:%d" % (s.path, s.line_of(off)))
                if tgt != "-":
                    self.emit("}", "generated", None)
            elif k == "slicehdr":
                self.slice(d)
        for s in u.substs:
            if s["count"] == 0 and not s["opt"]:
                raise Lost("subst at %s:%d matched nothing" % (u.vcpath, s["line"]))
        for c in u.canaries:
            if not c.get("used"):
                raise Lost("canary at %s:%d names no function of this unit (%s)" % (u.vcpath, c["line"], c["fn"]))
        return self

    def find_fn_item(self, s, host):
        if "::" in host:
            ty, m = host.split("::")
            for im in s.impls(type_name=ty):
                for it in s.members(im):
                    if it.kind == "fn" and it.name == m:
                        return it
            # trait impls for that type
            for im in s.top:
                if im.kind == "impl" and s.impl_header(im).endswith(" for " + ty):
                    for it in s.members(im):
                        if it.kind == "fn" and it.name == m:
                            return it
            raise Lost("%s not found in %s" % (host, s.path))
        c = s.find_top("fn", host)
        if not c:
            raise Lost("fn %s not found in %s" % (host, s.path))
        return c[0]

    def slice(self, d):
        """R9: text between two anchors inside a host function becomes the body of a generated fn.
        The generated signature comes from the spec section's 'attrs'-free header given in a
        `@@ verus` block is not used; instead the .vc provides `@@ spec <new>` whose first line
        starts with 'sig:' giving the full signature."""
        s = self.src(d["src"])
        it = self.find_fn_item(s, d["host"])
        text = s.text[it.start:it.end]
        i0 = text.find(d["a0"])
        if i0 < 0:
            raise Lost("slice start anchor %r not found in %s" % (d["a0"], d["host"]))
        i1 = i0 + len(d["a0"]) - 1
        for _ in range(d.get("n1", 1)):
            i1 = text.find(d["a1"], i1 + 1)
            if i1 < 0:
                raise Lost("slice end anchor %r (#%d) not found in %s" % (d["a1"], d.get("n1", 1), d["host"]))
        # whole lines: from start of the line containing a0 to the end of the line containing a1
        b = text.rfind("\n", 0, i0) + 1
        e = text.find("\n", i1)
        if d.get("skipfirst"):
            b = text.find("\n", i0) + 1          # the line holding the start anchor is not part of the slice
        for _ in range(d.get("skip", 0)):
            b = text.find("\n", b) + 1           # `skip=N`: the slice starts N lines below the line holding the start anchor
        if d.get("skiplast"):
            e = text.rfind("\n", 0, i1)          # nor the one holding the end anchor
        body = text[b:e]
        spec = self.u.specs.get(d["new"])
        if not spec or not spec["text"].startswith("sig:"):
            raise SystemExit("slice %s needs '@@ spec %s' starting with a 'sig:' line" % (d["new"], d["new"]))
        sig, rest = (spec["text"].split("\n", 1) + [""])[:2]
        sig = sig[4:].strip()
        tail = ""
        head = ""
        extra = 0
        mh = re.match(r"^head:(.*)$", rest.split("\n", 1)[0]) if rest else None
        if mh:
            head = mh.group(1).strip()
            rest = rest.split("\n", 1)[1] if "\n" in rest else ""
            extra += 1
        m = re.match(r"^tail:(.*)$", rest.split("\n", 1)[0]) if rest else None
        if m:
            tail = m.group(1).strip()
            rest = rest.split("\n", 1)[1] if "\n" in rest else ""
        saved = dict(spec)
        fn_text = "%s\n{\n%s\n%s\n%s\n}" % (sig, head, body, tail)
        self.u.specs[d["new"]] = dict(text=rest, ret=spec["ret"], line=spec["line"] + 1 + (1 if m else 0) + extra, attrs=spec.get("attrs", ""), noret=True)
        origin = "%s:%d (slice of %s)" % (s.path, s.line_of(it.start + b), d["host"])
        self.log.append(("R9", d["new"], "slice of %s lines %d-%d" % (d["host"], s.line_of(it.start + b), s.line_of(it.start + e))))
        self.add_fn_slice(d["new"], fn_text, origin)
        self.u.specs[d["new"]] = saved

    def add_fn_slice(self, fnpath, text, origin):
        # the sig already names its return value; splice clauses without rewriting '->'
        spec = self.u.specs[fnpath]
        u = self.u
        text2 = rewrite_macros(text, self.log, fnpath, u.settings)
        text2 = apply_substs(u, fnpath, text2, self.log)
        save = u.specs.pop(fnpath)
        try:
            body = process_fn(u, fnpath, text2, self.log, origin)
        finally:
            u.specs[fnpath] = save
        p = fn_parts(body)
        bo = p["toks"][p["body_open"]].start
        tagged = "\n".join("/*@spec %s*/ %s" % (vctag(u, spec["line"] + 1 + k), l) for k, l in enumerate(spec["text"].split("\n"))) if spec["text"].strip() else ""
        plain = body
        body = body[:bo].rstrip() + "\n" + tagged + "\n" + body[bo:]
        self.functions.append(dict(path=fnpath, origin=origin, has_spec=True, canary=False))
        self.emit(body, origin, fnpath)
        # canaries of a slice: the same generated fn under the deliberately false contract
        for c in self.u.canaries:
            if c["fn"] == fnpath:
                c["used"] = True
                cname = fnpath + "__canary%d" % c["line"]
                ctag = "\n".join("/*@spec %s*/ %s" % (vctag(u, c["line"] + 1 + k), l) for k, l in enumerate(c["text"].split("\n")))
                ctext = rename_fn(plain[:bo].rstrip() + "\n" + ctag + "\n" + plain[bo:], cname)
                self.functions.append(dict(path=cname, origin=origin, has_spec=True, canary=True))
                self.emit(ctext, "canary of " + origin, cname)

    def render(self):
        out = []
        linemap = []
        hdr = "// GENERATED by /verif/tools/extract.py from %s -- do not edit\n#![feature(allocator_api)]\n#![allow(unused_imports, dead_code, unused_variables, unused_mut, unused_assignments, non_snake_case, unused_parens, unused_braces, unreachable_code, non_camel_case_types)]\nuse vstd::prelude::*;\nverus! {\n" % os.path.basename(self.u.vcpath)
        out.append(hdr)
        line = hdr.count("\n") + 1
        for (text, origin, fnpath) in self.chunks:
            text = text.rstrip("\n") + "\n\n"
            n = text.count("\n")
            linemap.append(dict(start=line, end=line + n - 1, origin=origin, fn=fnpath))
            out.append(text)
            line += n
        out.append("} // verus!\n" + "\n".join(self.u.outside) + "\nfn main() {}\n")
        return "".join(out), linemap


ASSUME_PAT = [
    (re.compile(r"#\[verifier::external_body\]"), "external_body"),
    (re.compile(r"\bassume_specification\b"), "assume_specification"),
    (re.compile(r"\bassume\s*\("), "assume"),
    (re.compile(r"\badmit\s*\("), "admit"),
    (re.compile(r"#\[verifier::external_type_specification\]"), "external_type_specification"),
    (re.compile(r"#\[verifier::external\]"), "external"),
    (re.compile(r"\baxiom\s+fn\b"), "axiom"),
]


def scan_assumptions(text):
    """list every trusted construct in the assembled file, with the item it sits on"""
    res = []
    lines = text.split("\n")
    for i, l in enumerate(lines):
        code = l.split("//")[0]
        for pat, kind in ASSUME_PAT:
            if pat.search(code):
                # name: next line(s) containing fn/struct/assume_specification target
                ctx = " ".join(x.strip() for x in lines[i:i + 4])
                m = re.search(r"assume_specification\s*(?:<[^\]]*?>)?\s*\[\s*([^\]]+?)\s*\]", ctx) if kind == "assume_specification" else None
                if m:
                    name = m.group(1)
                else:
                    m = re.search(r"\b(?:fn|struct|enum|type)\s+([A-Za-z_][A-Za-z0-9_]*)", ctx)
                    name = m.group(1) if m else ctx[:60]
                    if kind in ("assume", "admit"):
                        name = "line %d: %s" % (i + 1, l.strip()[:80])
                res.append("%s: %s" % (kind, name))
    return res


def assemble(unit_name, outdir, repo=REPO, extra_consts=()):
    vc = os.path.join(VERIF, "contracts", unit_name + ".vc")
    u = parse_vc(vc)
    # R22: constants the code under contract refers to but the unit does not list (a constant introduced by a later change of the
    # code) are extracted automatically from the unit's source files.  A `const` is its definition: nothing is assumed or dropped.
    # (Functions are NOT pulled in this way: a function without contract tells its caller nothing.)
    pulled = []
    if extra_consts:
        probe = Assembler(u, repo)
        for name in extra_consts:
            for alias in u.sources:
                try:
                    src = probe.src(alias)
                except Exception:
                    continue
                kind = "const" if src.find_top("const", name) else ("static" if src.find_top("static", name) else None)
                if kind:
                    u.seq.insert(0, dict(kind="item", ikind=kind, src=alias, name=name, opts=[], line=0, new=None))
                    pulled.append((name, alias))
                    break
    a = Assembler(u, repo)
    for name, alias in pulled:
        a.log.append(("R22", name, "constant extracted automatically from source '%s' (not listed in the contract file)" % alias))
    a = a.run()
    text, linemap = a.render()
    os.makedirs(outdir, exist_ok=True)
    rs = os.path.join(outdir, u.name + ".rs")
    open(rs, "w").write(text)
    # in-body assumption guard: no assume/admit inside extracted bodies is enforced by review of hints
    hint_assumes = [h for h in u.hints if re.search(r"\b(assume|admit)\s*\(", h["text"])]
    meta = dict(unit=u.name, props=u.props, file=rs, linemap=linemap, functions=a.functions,
                rewrites=[list(x) for x in a.log], assumptions=scan_assumptions(text),
                hint_assumes=["%s:%d" % (u.vcpath, h["line"]) for h in hint_assumes],
                tags={k: sorted(v) for k, v in u.tags.items()},
                sql=u.sqlseen,
                sources=u.sources)
    json.dump(meta, open(os.path.join(outdir, u.name + ".map.json"), "w"), indent=1)
    return rs, meta


if __name__ == "__main__":
    try:
        rs, meta = assemble(sys.argv[1], sys.argv[2] if len(sys.argv) > 2 else "/root/scratch/v")
        print(rs, len(meta["functions"]), "functions", len(meta["rewrites"]), "rewrites")
    except Lost as e:
        print("LOST:", e)
        sys.exit(2)
