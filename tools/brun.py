#!/usr/bin/env python3
"""Engine B runner: inject bounded/pool_sql.rs as #[cfg(test)] child module of dhcp::pool in a scratch copy,
run it with cargo test on real SQLite, parse the VERIF-B protocol."""
import os
import re
import shutil
import subprocess
import sys
import time

HERE = os.path.dirname(os.path.abspath(__file__))
VERIF = os.path.dirname(HERE)
REPO = os.environ.get("VERIF_REPO", "/repo")


def prepare(scratch):
    dst = os.path.join(scratch, "b")
    if os.path.exists(os.path.join(dst, "Cargo.toml")):
        return dst
    os.makedirs(dst, exist_ok=True)
    subprocess.run(["rsync", "-a", "--exclude", "target", "--exclude", ".git", REPO + "/", dst + "/"], check=True)
    for src, host, mod in MODULES.values():
        tgt = os.path.join(dst, host)
        shutil.copy(os.path.join(VERIF, "bounded", src), os.path.join(os.path.dirname(tgt), mod + ".rs"))
        with open(tgt, "a") as fh:
            fh.write("\n#[cfg(test)]\n#[path = \"%s.rs\"]\npub(crate) mod %s;\n" % (mod, mod))
    return dst


# bounded modules: name -> (file under /verif/bounded, host source file it becomes a #[cfg(test)] child module of, module name)
MODULES = {
    "pool": ("pool_sql.rs", "crates/erbium-core/src/dhcp/pool.rs", "verif_sql"),
    "opts": ("dhcp_opts.rs", "crates/erbium-core/src/dhcp/dhcppkt.rs", "verif_opts"),
    "routes": ("dns_routes.rs", "crates/erbium-core/src/dns/config.rs", "verif_routes"),
    "policy": ("dhcp_policy.rs", "crates/erbium-core/src/dhcp/mod.rs", "verif_policy"),
    "cache": ("dns_cache.rs", "crates/erbium-core/src/dns/cache/mod.rs", "verif_cache"),
    "dhcpcfg": ("dhcp_cfg.rs", "crates/erbium-core/src/dhcp/config.rs", "verif_cfg"),
    "radv": ("radv_wire.rs", "crates/erbium-core/src/radv/icmppkt.rs", "verif_radv"),
    "ratelimit": ("dns_ratelimit.rs", "crates/erbium-core/src/dns/mod.rs", "verif_ratelimit"),
    "listener": ("dns_listener.rs", "crates/erbium-core/src/dns/mod.rs", "verif_listener"),
    "httpsvc": ("http_svc.rs", "crates/erbium-core/src/dhcp/mod.rs", "verif_httpsvc"),      # support for "http": no check of its own
    "http": ("http_list.rs", "crates/erbium-core/src/http.rs", "verif_http_contracts"),
    "wire": ("dns_wire.rs", "crates/erbium-core/src/dns/dnspkt.rs", "verif_wire"),
}


def run(scratch, rows, timeout=1500, module="pool"):
    dst = prepare(scratch)
    env = dict(os.environ, CARGO_NET_OFFLINE="true", VERIF_ROWS=str(rows))
    cmd = ["cargo", "test", "-p", "erbium-core", "--offline", "--lib", MODULES[module][2], "--", "--nocapture", "--test-threads", "1"]
    t0 = time.time()
    try:
        p = subprocess.run(cmd, cwd=dst, env=env, capture_output=True, text=True, timeout=timeout)
        out = p.stdout + "\n" + p.stderr
        rc = p.returncode
    except subprocess.TimeoutExpired as e:
        out, rc = "TIMEOUT", -9
    checks = {}
    fails = {}
    tables = (0, 0)
    for l in out.split("\n"):
        m = re.search(r"VERIF-B-TABLES total=(\d+) nonempty=(\d+)", l)
        if m:
            tables = (int(m.group(1)), int(m.group(2)))
        m = re.match(r"VERIF-B (\S+) evaluations=(\d+) failures=(\d+)", l)
        if m:
            checks[m.group(1)] = (int(m.group(2)), int(m.group(3)))
        m = re.match(r"VERIF-B-FAIL (\S+) :: (.*)$", l)
        if m:
            fails.setdefault(m.group(1), []).append(m.group(2))
    return dict(rc=rc, checks=checks, fails=fails, tables=tables, out=out[-4000:], cmd=" ".join(cmd), wall=time.time() - t0)


def run_task(pid, task, tier, scratch, seed):
    rows = task.get("rows_thorough", 3) if tier == "thorough" else task.get("rows_quick", 2)
    module = task.get("module", "pool")
    r = run(scratch, rows, module=module)
    if module != "pool":
        return other_module(task, module, r)
    out = dict(task="sql:pool", engine="bounded(cargo test on real SQLite)", status="ok", undecided_reason="", obligations=[], failures=[],
               assumptions=[], trusted_base=["SQLite (bundled with rusqlite) as the reference semantics of the SQL statements"],
               functions_under_contract=[], rewrites=[], samples=[], checker_cmd="VERIF_ROWS=%d %s" % (rows, r["cmd"]), solver_ms=0, canaries=0,
               bounded=dict(engine="B", rows_per_table=rows, domain="<=1 row per address over %d addresses x 2 clients x expiry in {now-100, now+100, now+200}; every pool subset; requested in {none, each address}" % rows,
                            exhaustive=True, checks={}, tables_total=r["tables"][0], tables_nonempty=r["tables"][1]))
    if not r["checks"]:
        out["status"] = "undecided"
        out["undecided_reason"] = "engine B produced no result (build failure or time-out): " + r["out"][-600:]
        return out
    # the test module must run to its end: a panic half way (or a missing expected check) means the remaining checks did not run
    if r["rc"] != 0 and not any(nf for (_ev, nf) in r["checks"].values()):
        out["status"] = "undecided"
        out["undecided_reason"] = "engine B test module did not finish (exit %s): %s" % (r["rc"], r["out"][-600:])
    want = task.get("checks")
    for name, (ev, nf) in r["checks"].items():
        if want and not any(name.startswith(w) for w in want):
            continue
        out["bounded"]["checks"][name] = dict(evaluations=ev, failures=nf)
        out["obligations"].append(dict(name="sqlB::" + name, ok=nf == 0, kind="bounded", origin="crates/erbium-core/src/dhcp/pool.rs", ms=0))
        out["samples"].append("sqlB::%s evaluations=%d failures=%d (bounded, rows<=%d)" % (name, ev, nf, rows))
        for w in r["fails"].get(name, [])[:3]:
            out["failures"].append(dict(fn=name, obligation="sqlB::" + name, engine="engine B (real SQLite)", message="contract violated on the real code", text="", clause=None,
                                        witness=w, replayed=True, rendered=w, replay_output="\n".join(r["fails"].get(name, [])), origin="crates/erbium-core/src/dhcp/pool.rs"))
    if out["failures"]:
        out["status"] = "violation"
    return out


def other_module(task, module, r):
    """a bounded module other than the SQL one: same VERIF-B protocol, its own description"""
    src, host, mod = MODULES[module]
    out = dict(task="bounded:" + module, engine="bounded(cargo test of the real code)", status="ok", undecided_reason="", obligations=[], failures=[],
               assumptions=[], trusted_base=[], functions_under_contract=[], rewrites=[], samples=[], checker_cmd=r["cmd"], solver_ms=0, canaries=0,
               bounded=dict(engine="B", module=src, domain=task.get("domain", ""), exhaustive=True, checks={}))
    if not r["checks"]:
        out["status"] = "undecided"
        out["undecided_reason"] = "engine B produced no result (build failure or time-out): " + r["out"][-600:]
        return out
    if r["rc"] != 0 and not any(nf for (_ev, nf) in r["checks"].values()):
        out["status"] = "undecided"
        out["undecided_reason"] = "engine B test module did not finish (exit %s): %s" % (r["rc"], r["out"][-600:])
    want = task.get("checks")
    for name, (ev, nf) in r["checks"].items():
        if want and not any(name.startswith(w) for w in want):
            continue
        out["bounded"]["checks"][name] = dict(evaluations=ev, failures=nf)
        out["obligations"].append(dict(name="B::" + name, ok=nf == 0, kind="bounded", origin=host, ms=0))
        out["samples"].append("B::%s evaluations=%d failures=%d (bounded)" % (name, ev, nf))
        for w in r["fails"].get(name, [])[:3]:
            out["failures"].append(dict(fn=name, obligation="B::" + name, engine="engine B (real code)", message="contract violated on the real code", text="", clause=None,
                                        witness=w, replayed=True, rendered=w, replay_output="\n".join(r["fails"].get(name, [])), origin=host))
    if out["failures"]:
        out["status"] = "violation"
    return out


if __name__ == "__main__":
    r = run(sys.argv[1] if len(sys.argv) > 1 else "/root/scratch/bdev", int(os.environ.get("VERIF_ROWS", "2")))
    for k, v in r["checks"].items():
        print(k, v)
    for k, v in r["fails"].items():
        for w in v[:3]:
            print("FAIL", k, w[:400])
    if not r["checks"]:
        print(r["out"])
    print("wall %.1fs" % r["wall"])
