#!/usr/bin/env python3
"""usage: tools/seedsave.py <mutant-dir> <name> <detected-by-json>   archive a confirmed seeded change under /verif/seeded/<name>/"""
import json, os, shutil, sys
m, name, det = sys.argv[1], sys.argv[2], json.loads(sys.argv[3])
d = os.path.join("/verif/seeded", name)
os.makedirs(d, exist_ok=True)
for f in ("patch.diff", "demo.diff"):
    shutil.copy(os.path.join(m, f), os.path.join(d, f))
meta = json.load(open(os.path.join(m, "meta.json")))
meta["confirmed"] = dict(
    ran=["git apply demo.diff && <demo_cmd>  -> passes on the clean tree",
         "git apply patch.diff && <demo_cmd>  -> fails",
         "git apply patch.diff && cargo test --workspace --offline -> 92 + 7 passed, 0 failed",
         "git -C /repo apply patch.diff && ./check <id> ; git -C /repo checkout -- ."],
    base_commit=os.popen("git -C /repo rev-parse --short HEAD").read().strip())
meta["detection"] = det
json.dump(meta, open(os.path.join(d, "meta.json"), "w"), indent=1)
print("saved", d)
