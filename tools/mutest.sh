#!/bin/sh
# usage: tools/mutest.sh <patch-file|-R:commit> <prop>...   apply a change to /repo, run the checks, undo it
P="$1"; shift
cd /repo
case "$P" in
  -R:*) git show "${P#-R:}" | git apply -R || exit 3 ;;
  *) git apply "$P" || exit 3 ;;
esac
cd /verif
for p in "$@"; do ./check "$p" 2>&1 | grep -E "^VIOLATION|^KNOWN|^UNDECIDED|tier=" ; done
git -C /repo checkout -- .
git -C /verif checkout -- evidence 2>/dev/null
