#!/usr/bin/env python3
"""Engine V runner: assemble a unit, run Verus on it, map diagnostics to named obligations.

Result dict:
  status: 'ok' | 'violation' | 'undecided'
  functions: {fnpath: {success, time_ms, rlimit, canary, origin}}
  failures: [ {fn, obligation, message, line, text, clause, rendered} ]
  undecided_reason: str
"""
import json
import os
import re
import subprocess
import sys
import time

sys.path.insert(0, os.path.dirname(os.path.abspath(__file__)))
import extract  # noqa: E402

PROOF_FAIL = (
    "postcondition not satisfied",
    "precondition not satisfied",
    "possible arithmetic underflow/overflow",
    "invariant not satisfied",
    "assertion failed",
    "possible division by zero",
    "decreases not satisfied",
    "could not prove termination",
    "possible bit shift underflow/overflow",
    "cannot show invariant holds",
    "unreachable",
    "index out of bounds",
    "recommendation not met",
    "loop invariant not",
    "might not be allowed",
    "possible truncation",
    "failed to show",
    "may panic",
    "unable to prove post-condition of closure",
    "unable to prove assertion",
)
RESOURCE = ("Resource limit", "rlimit", "timed out", "timeout")


def verus_cmd(rs, rlimit):
    return ["verus", rs, "--edition", "2024", "--output-json", "--time", "--error-format=json",
            "--rlimit", str(rlimit), "--multiple-errors", "8", "--no-report-long-running"]


def fn_of_line(linemap, line):
    for ch in linemap:
        if ch["start"] <= line <= ch["end"]:
            return ch
    return None


def clause_tag(text):
    m = re.search(r"/\*@(spec|loop|hint|closure) ([^*]+)\*/", text or "")
    return (m.group(1), m.group(2)) if m else None


def run_unit(unit, outdir, rlimit=30, repo=None, drop_clauses=()):
    # R22: when Verus cannot find a VALUE that is a constant of the unit's source files, extract it and run again (at most 3 rounds)
    extra = []
    for _ in range(4):
        res = run_unit_once(unit, outdir, rlimit, repo, tuple(extra), drop_clauses)
        missing = [m for m in re.findall(r"cannot find value `(\w+)` in this scope", res.get("undecided_reason", "")) if m not in extra]
        if res["status"] != "undecided" or not missing:
            return res
        extra.extend(sorted(set(missing)))
    return res


def run_unit_once(unit, outdir, rlimit=30, repo=None, extra_consts=(), drop_clauses=()):
    t0 = time.time()
    res = dict(unit=unit, status="undecided", functions={}, failures=[], undecided_reason="", assumptions=[], rewrites=[],
               checker_cmd="", wall_s=0.0, smt_ms=0, canaries_failed_as_expected=0)
    try:
        rs, meta = extract.assemble(unit, outdir, repo or extract.REPO, extra_consts)
    except extract.Lost as e:
        res["undecided_reason"] = "lost anchor: %s" % e
        res["wall_s"] = time.time() - t0
        return res
    res["assumptions"] = meta["assumptions"]
    res["rewrites"] = meta["rewrites"]
    res["file"] = rs
    res["tags"] = meta.get("tags", {})
    if meta["hint_assumes"]:
        res["undecided_reason"] = "assume/admit inside a hint: %s" % meta["hint_assumes"]
        return res
    if drop_clauses:
        # dependency run (registry.run_verus): contract clauses that were found to fail and belong to other properties are taken out
        # of the contracts, so that no caller's proof can lean on them; line numbers are kept
        keep = []
        for l in open(rs).read().split("\n"):
            m = re.match(r"/\*@(?:spec|loop) ([^*]+)\*/", l)
            keep.append("/*@dropped %s*/" % m.group(1) if m and m.group(1).strip() in drop_clauses else l)
        open(rs, "w").write("\n".join(keep))
    cmd = verus_cmd(rs, rlimit)
    res["checker_cmd"] = " ".join(cmd)
    env = dict(os.environ)
    p = subprocess.run(cmd, capture_output=True, text=True, cwd=outdir, env=env)
    res["wall_s"] = time.time() - t0
    try:
        out = json.loads(p.stdout)
    except Exception:
        res["undecided_reason"] = "verus produced no JSON (exit %d): %s" % (p.returncode, (p.stderr or p.stdout)[-2000:])
        return res
    diags = []
    for l in p.stderr.split("\n"):
        l = l.strip()
        if l.startswith("{"):
            try:
                diags.append(json.loads(l))
            except Exception:
                pass
    vr = out.get("verification-results", {})
    src_lines = open(rs).read().split("\n")
    crate = os.path.splitext(os.path.basename(rs))[0]
    # per function results
    known = {f["path"]: f for f in meta["functions"]}
    fb = []
    for m in out.get("times-ms", {}).get("smt", {}).get("smt-run-module-times", []):
        fb.extend(m.get("function-breakdown", []))
    res["smt_ms"] = out.get("times-ms", {}).get("smt", {}).get("smt-run", 0)
    seen = {}
    for f in fb:
        name = f["function"]
        if name.startswith(crate + "::"):
            name = name[len(crate) + 2:]
        ent = seen.setdefault(name, dict(success=True, time_ms=0, rlimit=0))
        ent["success"] = ent["success"] and bool(f.get("success"))
        ent["time_ms"] += f.get("time", 0)
        ent["rlimit"] += f.get("rlimit", 0)
    res["all_verified_items"] = seen
    # hard errors (not proof failures) => undecided
    errors = [d for d in diags if d.get("level") == "error" and not d.get("message", "").startswith("aborting due to")]
    hard = []
    resource = []
    proof = []
    for d in errors:
        msg = d.get("message", "")
        if any(k in msg for k in RESOURCE):
            resource.append(d)
        elif any(k in msg for k in PROOF_FAIL):
            proof.append(d)
        else:
            hard.append(d)
    if vr.get("encountered-vir-error") or (hard and not seen) or (not vr):
        res["undecided_reason"] = "verus rejected the assembled file: " + "; ".join(
            "%s @%s" % (d.get("message", "")[:300], ["%s:%s" % (s["file_name"], s["line_start"]) for s in d.get("spans", [])][:1]) for d in hard[:5])
        res["hard_errors"] = [d.get("rendered", "") for d in hard[:10]]
        return res
    if hard:
        # unknown error kinds while functions were verified: treat as undecided to stay sound
        res["undecided_reason"] = "unclassified verus error: " + "; ".join(d.get("message", "")[:200] for d in hard[:5])
        res["hard_errors"] = [d.get("rendered", "") for d in hard[:10]]
        return res

    def primary(d):
        sp = [s for s in d.get("spans", []) if s.get("is_primary")] or d.get("spans", [])
        return sp[0] if sp else None

    fails_by_fn = {}
    for d in proof:
        sp = primary(d)
        line = sp["line_start"] if sp else 0
        ch = fn_of_line(meta["linemap"], line)
        fn = ch["fn"] if ch and ch["fn"] else ("<%s>" % (ch["origin"] if ch else "?"))
        ltext = src_lines[line - 1] if 0 < line <= len(src_lines) else ""
        # the clause that failed: any span (primary or secondary) that sits on a tagged clause line
        clause = None
        for s in d.get("spans", []):
            lt = src_lines[s["line_start"] - 1] if 0 < s["line_start"] <= len(src_lines) else ""
            tg = clause_tag(lt)
            if tg:
                clause = dict(kind=tg[0], at=tg[1], text=re.sub(r"/\*@[^*]*\*/\s*", "", lt).strip())
                break
        kind = d["message"]
        ob = "%s::%s" % (unit, fn)
        fails_by_fn.setdefault(fn, []).append(dict(fn=fn, obligation=ob, message=kind, line=line, text=re.sub(r"/\*@[^*]*\*/\s*", "", ltext).strip(),
                                                   clause=clause, rendered=d.get("rendered", ""), origin=ch["origin"] if ch else None))
    for d in resource:
        sp = primary(d)
        line = sp["line_start"] if sp else 0
        ch = fn_of_line(meta["linemap"], line)
        fn = ch["fn"] if ch and ch["fn"] else "?"
        res.setdefault("resource_out", []).append(dict(fn=fn, message=d["message"]))

    # assemble function table
    for f in meta["functions"]:
        p_ = f["path"]
        # verus names: Type::method or fn name
        ent = seen.get(p_)
        if ent is None:
            # try suffix match (impl<'l> Buffer<'l> -> Buffer::name)
            cands = [k for k in seen if k.endswith("::" + p_) or k == p_]
            ent = seen.get(cands[0]) if cands else None
        ok = ent["success"] if ent else None
        if p_ in fails_by_fn:
            ok = False
        res["functions"][p_] = dict(success=ok, time_ms=ent["time_ms"] if ent else 0, rlimit=ent["rlimit"] if ent else 0,
                                    canary=f["canary"], origin=f["origin"], has_spec=f["has_spec"])
    # other verified items: lemmas/spec/proof fns from `@@ verus` blocks
    listed = set(res["functions"])
    res["aux_items"] = {k: v for k, v in seen.items() if k not in listed and not any(k.endswith("::" + x) for x in listed)}
    aux_fail = [k for k, v in res["aux_items"].items() if not v["success"]]

    # canaries
    bad_canaries = []
    for p_, f in res["functions"].items():
        if f["canary"]:
            if f["success"] is False:
                res["canaries_failed_as_expected"] += 1
            else:
                bad_canaries.append(p_)
    if bad_canaries:
        res["undecided_reason"] = "vacuity guard: canary verified although its postcondition is false: %s" % bad_canaries
        return res
    if res.get("resource_out"):
        res["undecided_reason"] = "resource limit: %s" % res["resource_out"]
        # keep going: other failures are still real, but a function that ran out of rlimit is undecided
    real = []
    ro_fns = {r["fn"] for r in res.get("resource_out", [])}
    for fn, fl in fails_by_fn.items():
        if fn in res["functions"] and res["functions"][fn]["canary"]:
            continue
        if any("guard_" in (f.get("text") or "") or "guard_" in (f.get("rendered") or "") for f in fl) and fn.startswith("<"):
            fl[:] = [f for f in fl if "guard_" not in (f.get("rendered") or "")]
            if not fl:
                continue
        if fn in ro_fns:
            continue
        real.extend(fl)
    # a non-canary function reported unsuccessful without a classified diagnostic
    for p_, f in res["functions"].items():
        if not f["canary"] and f["success"] is False and p_ not in fails_by_fn and p_ not in ro_fns:
            real.append(dict(fn=p_, obligation="%s::%s" % (unit, p_), message="verification failed (no classified diagnostic)", line=0, text="", clause=None, rendered="", origin=f["origin"]))
    guards = [k for k in aux_fail if k.split("::")[-1].startswith("guard_")]
    aux_fail = [k for k in aux_fail if k not in guards]
    if guards:
        res["undecided_reason"] += " coverage guard failed (proof was done for other constants): %s" % guards
    for k in aux_fail:
        if k not in ro_fns and not any(x["fn"] == k for x in real) and ("<" + k) not in str(real):
            real.append(dict(fn=k, obligation="%s::%s" % (unit, k), message="auxiliary lemma/proof failed", line=0, text="", clause=None, rendered="", origin="contracts"))
    res["failures"] = real
    missing = [p_ for p_, f in res["functions"].items() if f["success"] is None and f["has_spec"]]
    if missing and not real:
        # functions Verus did not report on (e.g. no obligations at all) are fine only if verus said success
        pass
    if real:
        res["status"] = "violation"
    elif res["undecided_reason"]:
        res["status"] = "undecided"
    elif vr.get("success") or (vr.get("errors", 0) == res["canaries_failed_as_expected"] + 0 and not real):
        res["status"] = "ok"
    else:
        # errors counted by verus that we did not attribute
        n_err = vr.get("errors", 0)
        res["status"] = "ok" if n_err <= sum(len(v) for k, v in fails_by_fn.items() if k in res["functions"] and res["functions"][k]["canary"]) else "undecided"
        if res["status"] == "undecided":
            res["undecided_reason"] = "verus reported %d errors that could not be attributed" % n_err
    res["verified_count"] = vr.get("verified", 0)
    res["error_count"] = vr.get("errors", 0)
    return res


if __name__ == "__main__":
    import argparse
    ap = argparse.ArgumentParser()
    ap.add_argument("unit")
    ap.add_argument("--out", default="/root/scratch/v")
    ap.add_argument("--rlimit", default="30")
    ap.add_argument("--repo", default=None)
    ap.add_argument("-v", action="store_true")
    a = ap.parse_args()
    r = run_unit(a.unit, a.out, a.rlimit, a.repo)
    print("status:", r["status"], r["undecided_reason"])
    for k, f in r["functions"].items():
        print("  %-50s %s %5dms%s" % (k, {True: "ok  ", False: "FAIL", None: "n/a "}[f["success"]], f["time_ms"], " (canary)" if f["canary"] else ""))
    for k, f in r.get("aux_items", {}).items():
        print("  aux %-46s %s %5dms" % (k, "ok  " if f["success"] else "FAIL", f["time_ms"]))
    for f in r["failures"]:
        print("FAIL %s: %s @%d `%s` clause=%s" % (f["obligation"], f["message"], f["line"], f["text"][:100], f["clause"]))
    if a.v:
        for f in r["failures"]:
            print(f["rendered"])
        for h in r.get("hard_errors", []):
            print(h)
    print("wall %.1fs smt %dms verified=%s errors=%s" % (r["wall_s"], r["smt_ms"], r.get("verified_count"), r.get("error_count")))
