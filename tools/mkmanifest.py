#!/usr/bin/env python3
"""Regenerate MANIFEST.json from tools/registry.py + tools/manifest_text.py"""
import json, os, sys
HERE = os.path.dirname(os.path.abspath(__file__))
sys.path.insert(0, HERE)
import registry, manifest_text as T

ROOT = os.path.dirname(HERE)
ids = [json.loads(l)["id"] for l in open(os.path.join(ROOT, "properties.jsonl"))]
checks, na = [], []
for pid in ids:
    if pid in registry.PROPS and pid in T.TEXT:
        t = T.TEXT[pid]
        checks.append(dict(
            property_id=pid,
            quick_cmd="./check %s --tier quick" % pid,
            thorough_cmd="./check %s --tier thorough" % pid,
            evidence_file="/verif/evidence/%s.json" % pid,
            replay_cmd_template="./check %s --replay {path}" % pid,
            engine=t.get("engine", "verus"),
            level_claimed=dict(category=registry.PROPS[pid].get("level", "proof"), text=t["level"], design_ref=t.get("design_ref", "DESIGN.md section 5 %s" % pid)),
            level_note=t["note"],
            technique=t["technique"],
        ))
    else:
        na.append(dict(property_id=pid, reason=T.NA.get(pid, "no check built yet in this revision; plan in DESIGN.md section 5")))
m = dict(
    version=1,
    setup_cmd="./setup.sh",
    hooks=dict(guard="kani", enable="none needed: engine V reads source text; engines K/B inject #[cfg(kani)]/#[cfg(test)] child modules into a scratch copy at check time",
               baseline_off_cmd="cd /repo && cargo test --workspace --no-fail-fast --offline", source_commits=[], add_only=True),
    engines=[
        dict(name="V", path="tools/vrun.py", serves_properties=sorted(p for p in registry.PROPS if any(t["engine"] == "verus" for t in registry.PROPS[p]["tasks"])), kind_free_text="Verus on functions mechanically extracted from /repo on every run, contracts in contracts/*.vc"),
        dict(name="K", path="tools/krun.py", serves_properties=sorted(p for p in registry.PROPS if any(t["engine"] == "kani" for t in registry.PROPS[p]["tasks"])), kind_free_text="Kani/CBMC on the real crate in a scratch copy with injected cfg(kani) harness modules"),
        dict(name="B", path="tools/brun.py", serves_properties=sorted(p for p in registry.PROPS if any(t["engine"] == "sql" for t in registry.PROPS[p]["tasks"])), kind_free_text="bounded exhaustive checks of assumed contracts on the real code run natively (SQL statements on real SQLite; the HashMap glue of the DHCP option table; YAML route parsing): labelled bounded, never counted as proved"),
    ],
    checks=checks,
    notes=T.NOTES,
    not_applicable=na,
)
json.dump(m, open(os.path.join(ROOT, "MANIFEST.json"), "w"), indent=1)
print("claimed:", [c["property_id"] for c in checks])
print("not applicable:", [x["property_id"] for x in na])
