#!/bin/bash
# usage: tools/seedcheck.sh <mutant-dir> <worktree> <prop>...
# 1. confirm the mutant's claims in the scratch worktree  2. run our checks against it in /repo (apply, check, undo)
M="$1"; WT="$2"; shift 2
set -u
cd "$WT" && git checkout -q -- . && git clean -fdq -e target
DEMO=$(python3 -c "import json;print(json.load(open('$M/meta.json'))['demo_cmd'])")
echo "== demo cmd: $DEMO"
git apply "$M/demo.diff" || { echo "demo.diff does not apply"; exit 3; }
echo "-- demo on clean tree (expect pass):"; (eval "$DEMO" 2>&1 | grep -E "^test result|FAILED|panicked|error(\[|:)" | head -5)
git apply "$M/patch.diff" || { echo "patch.diff does not apply"; exit 3; }
echo "-- demo with mutant (expect FAIL):"; (eval "$DEMO" 2>&1 | grep -E "^test result|FAILED|panicked|error(\[|:)" | head -5)
git checkout -q -- . && git clean -fdq -e target
git apply "$M/patch.diff"
echo "-- existing suite with mutant (expect 92+7 pass):"; cargo test --workspace --offline 2>&1 | grep -E "^test result: .* [1-9][0-9]* passed|FAILED|error(\[|:)" | head -5
git checkout -q -- . && git clean -fdq -e target
cd /repo && git apply "$M/patch.diff" || { echo "patch does not apply to /repo"; exit 3; }
cd /verif
for p in "$@"; do ./check "$p" 2>&1 | grep -E "^VIOLATION|^KNOWN|^UNDECIDED|tier=" | cut -c1-260; done
git -C /repo checkout -- .
git -C /verif checkout -- evidence 2>/dev/null
