#!/usr/bin/env python3
"""Engine K runner: Kani on the real crate in a scratch copy with injected cfg(kani) modules.

kani/<set>.rs header lines:
  //@ target: <module file relative to repo>        (the harness module becomes its child)
  //@ package: <cargo package>
  //@ harness: <name> complete|bounded(...)|validate-spec props=C01,C02 [tier=thorough] [timeout=300]
  //@ contract: <fn-line-anchor> :: <attribute text>   (inserted above the first line containing the anchor)
"""
import os
import re
import shutil
import subprocess
import sys
import time

HERE = os.path.dirname(os.path.abspath(__file__))
VERIF = os.path.dirname(HERE)
REPO = os.environ.get("VERIF_REPO", "/repo")


def parse_set(name):
    path = os.path.join(VERIF, "kani", name + ".rs")
    meta = dict(name=name, path=path, target=None, package=None, harnesses=[], contracts=[], extra_targets=[])
    for l in open(path):
        m = re.match(r"//@\s*(\w+):\s*(.*)$", l.rstrip())
        if not m:
            continue
        k, v = m.group(1), m.group(2).strip()
        if k == "target":
            meta["target"] = v
        elif k == "package":
            meta["package"] = v
        elif k == "harness":
            parts = v.split()
            h = dict(name=parts[0], cls=parts[1], props=[], tier="quick", timeout=None)
            for p in parts[2:]:
                if p.startswith("props="):
                    h["props"] = p[6:].split(",")
                elif p.startswith("tier="):
                    h["tier"] = p[5:]
                elif p.startswith("timeout="):
                    h["timeout"] = int(p[8:])
            meta["harnesses"].append(h)
        elif k == "contract":
            anchor, attr = v.split("::", 1)
            meta["contracts"].append((anchor.strip(), attr.strip()))
    return meta


def prepare_copy(scratch):
    dst = os.path.join(scratch, "k")
    os.makedirs(dst, exist_ok=True)
    # always re-synchronise with the working tree (incremental; keeps the build output, drops earlier injections of changed files)
    subprocess.run(["rsync", "-a", "--delete", "--exclude", "target", "--exclude", ".git", "--exclude", "verif_kani_*.rs",
                    REPO + "/", dst + "/"], check=True)
    return dst


def inject(dst, meta):
    tgt = os.path.join(dst, meta["target"])
    if not os.path.exists(tgt):
        return "target module %s missing" % meta["target"]
    src = open(tgt).read()
    marker = "mod verif_kani_%s;" % meta["name"]
    if marker in src:
        return None
    for (anchor, attr) in meta["contracts"]:
        lines = src.split("\n")
        hit = [i for i, l in enumerate(lines) if anchor in l]
        if not hit:
            return "contract anchor %r not found in %s" % (anchor, meta["target"])
        ind = re.match(r"\s*", lines[hit[0]]).group(0)
        lines.insert(hit[0], ind + attr)
        src = "\n".join(lines)
    # the harness file is copied into the scratch copy (kani's inplace playback edits it)
    hcopy = os.path.join(dst, "verif_kani_%s.rs" % meta["name"])
    shutil.copy(meta["path"], hcopy)
    meta["copy"] = hcopy
    src += "\n#[cfg(kani)]\n#[path = \"%s\"]\n%s\n" % (hcopy, marker)
    open(tgt, "w").write(src)
    return None


def run_kani(dst, package, names, timeout_each, jobs, log, extra=()):
    cmd = ["cargo", "kani", "-p", package, "-Z", "function-contracts", "-Z", "stubbing", "-Z", "unstable-options",
           "--output-format", "terse", "-j", str(jobs), "--harness-timeout", "%ds" % timeout_each]
    for n in names:
        cmd += ["--harness", n]
    cmd += list(extra)
    env = dict(os.environ, CARGO_NET_OFFLINE="true")
    overall = 240 + timeout_each * (1 + len(names) // max(1, jobs))
    t0 = time.time()
    with open(log, "w") as fh:
        try:
            p = subprocess.run(cmd, cwd=dst, env=env, stdout=fh, stderr=subprocess.STDOUT, timeout=overall)
            rc = p.returncode
        except subprocess.TimeoutExpired:
            rc = -9
            subprocess.run(["pkill", "-x", "cbmc"])
    return rc, " ".join(cmd), time.time() - t0


def parse_log(text, names):
    """-> {harness: dict(result='ok'|'fail'|'undecided', failed_checks=[...], time=..)}"""
    res = {}
    thread_h = {}
    cur_thread = None
    cur = None
    single = None
    for l in text.split("\n"):
        m = re.match(r"(?:Thread (\d+): )?Checking harness (\S+?)\.\.\.", l)
        if m:
            h = m.group(2).split("::")[-1]
            if m.group(1) is not None:
                thread_h[m.group(1)] = h
            else:
                single = h
            res.setdefault(h, dict(result="undecided", failed_checks=[], time=0.0, detail=""))
            continue
        m = re.match(r"Thread (\d+):\s*$", l)
        if m:
            cur = thread_h.get(m.group(1))
            continue
        if single and cur is None:
            cur = single
        if cur is None:
            continue
        if l.startswith("Failed Checks:"):
            res[cur]["failed_checks"].append(l[len("Failed Checks:"):].strip())
        elif l.startswith(" File:") and res[cur]["failed_checks"]:
            res[cur]["failed_checks"][-1] += " @" + l.strip()[6:]
        elif l.startswith("VERIFICATION:- SUCCESSFUL"):
            res[cur]["result"] = "ok"
        elif l.startswith("VERIFICATION:- FAILED"):
            res[cur]["result"] = "fail"
        elif l.startswith("Verification Time:"):
            try:
                res[cur]["time"] = float(l.split(":")[1].strip().rstrip("s"))
            except Exception:
                pass
            if single:
                cur = None
                single = None
        elif "CBMC failed" in l or "timed out" in l.lower() or "out of memory" in l.lower():
            res[cur]["detail"] += l.strip() + "; "
    for h, r in res.items():
        # a failure that is only an unwinding assertion / unsupported construct is undecided, not a violation
        if r["result"] == "fail":
            real = [c for c in r["failed_checks"] if not re.search(r"unwinding assertion|is not currently supported|unsupported|Kani does not support", c)]
            if not real and r["failed_checks"]:
                r["result"] = "undecided"
                r["detail"] += "only unwinding/unsupported failures; "
            if not r["failed_checks"]:
                r["result"] = "undecided"
                r["detail"] += "FAILED without a failed check (time-out or tool error); "
    for n in names:
        res.setdefault(n, dict(result="undecided", failed_checks=[], time=0.0, detail="no result in log (build error or overall time-out)"))
    return res


def playback(dst, package, harness, log_dir, timeout=600):
    """get a concrete counterexample for a failing harness and replay it natively on the real code"""
    env = dict(os.environ, CARGO_NET_OFFLINE="true")
    cmd = ["cargo", "kani", "-p", package, "-Z", "function-contracts", "-Z", "stubbing", "-Z", "concrete-playback",
           "--harness", harness, "--concrete-playback=inplace", "--output-format", "terse"]
    out1 = ""
    try:
        p = subprocess.run(cmd, cwd=dst, env=env, capture_output=True, text=True, timeout=timeout)
        out1 = p.stdout + p.stderr
    except subprocess.TimeoutExpired:
        return None, "playback generation timed out"
    m = re.search(r"kani_concrete_playback_\w+", out1)
    if not m:
        # look in sources
        return None, "no concrete playback test generated\n" + out1[-1500:]
    test = m.group(0)
    # fetch generated test text
    gen = ""
    for root, _, files in os.walk(dst):
        if "target" in root.split(os.sep):
            continue
        for f in files:
            if f.startswith("verif_kani_") and f.endswith(".rs"):
                t = open(os.path.join(root, f)).read()
                i = t.find("fn " + test)
                if i >= 0:
                    j = t.rfind("#[test]", 0, i)
                    k = t.find("\n}\n", i)
                    gen = t[j:k + 3]
    cmd2 = ["cargo", "kani", "playback", "-p", package, "-Z", "concrete-playback", "--", test]
    try:
        p2 = subprocess.run(cmd2, cwd=dst, env=env, capture_output=True, text=True, timeout=timeout)
        out2 = p2.stdout[-3000:] + p2.stderr[-3000:]
        failed = p2.returncode != 0 and ("panicked" in out2 or "FAILED" in out2)
    except subprocess.TimeoutExpired:
        out2, failed = "native playback timed out", False
    return dict(test=test, generated=gen, native_output=out2, native_failed=failed), None


def strip_generated_playback():
    """kani --concrete-playback=inplace writes the generated test into the harness file; remove it again"""
    for f in os.listdir(os.path.join(VERIF, "kani")):
        if not f.endswith(".rs"):
            continue
        p = os.path.join(VERIF, "kani", f)
        t = open(p).read()
        t2 = re.sub(r"\n*/// Test generated for harness[^\n]*\n(?:///[^\n]*\n)*#\[test\]\n(?:#\[[^\n]*\n)*fn kani_concrete_playback_\w+\(\)[^{]*\{.*?\n\}\n", "\n", t, flags=re.S)
        t2 = re.sub(r"\n*#\[test\]\n(?:#\[[^\n]*\n)*fn kani_concrete_playback_\w+\(\)[^{]*\{.*?\n\}\n", "\n", t2, flags=re.S)
        if t2 != t:
            open(p, "w").write(t2)


def run_task(pid, task, tier, scratch, seed):
    t0 = time.time()
    sets = [parse_set(s) for s in task["sets"]]
    out = dict(task="kani:" + ",".join(task["sets"]), engine="kani(cbmc)", status="ok", undecided_reason="", obligations=[], failures=[],
               assumptions=[], trusted_base=["Kani 0.68 + CBMC 6.11 (SAT back end), rustc front end of Kani"], functions_under_contract=[], rewrites=[], samples=[],
               checker_cmd="", solver_ms=0, canaries=0, bounded=None)
    dst = prepare_copy(scratch)
    by_pkg = {}
    hinfo = {}
    for s in sets:
        err = inject(dst, s)
        if err:
            out["status"] = "undecided"
            out["undecided_reason"] = "lost anchor: " + err
            return out
        for h in s["harnesses"]:
            if pid not in h["props"]:
                continue
            if h["tier"] == "thorough" and tier != "thorough":
                continue
            if task.get("only") and h["name"] not in task["only"]:
                continue
            by_pkg.setdefault(s["package"], []).append(h["name"])
            hinfo[h["name"]] = (s, h)
    bounded = []
    for pkg, names in by_pkg.items():
        tmo = max([hinfo[n][1]["timeout"] or (120 if tier == "quick" else 900) for n in names])
        log = os.path.join(scratch, "kani-%s-%s.log" % (pid, pkg))
        rc, cmd, wall = run_kani(dst, pkg, names, tmo, min(8, len(names)), log)
        out["checker_cmd"] = cmd
        text = open(log).read()
        res = parse_log(text, names)
        if "error: could not compile" in text or "error[E" in text:
            out["status"] = "undecided"
            out["undecided_reason"] = "kani build failed: " + "\n".join([l for l in text.split("\n") if l.startswith("error")][:5])
            return out
        for n in names:
            s, h = hinfo[n]
            r = res[n]
            kind = "proved" if h["cls"] in ("complete", "validate-spec", "contract") else "bounded"
            name = "kani::%s::%s" % (s["name"], n)
            out["solver_ms"] += int(r["time"] * 1000)
            if r["result"] == "ok":
                out["obligations"].append(dict(name=name, ok=True, kind=kind, origin=s["target"], ms=int(r["time"] * 1000)))
            elif r["result"] == "fail":
                out["obligations"].append(dict(name=name, ok=False, kind=kind, origin=s["target"], ms=int(r["time"] * 1000)))
                f = dict(fn=n, obligation=name, engine="kani", message="; ".join(r["failed_checks"][:4]), text=h["cls"], clause=None,
                         rendered="\n".join(r["failed_checks"]), origin=s["target"])
                known = set()
                kf = os.path.join(VERIF, "known-findings.txt")
                if os.path.exists(kf):
                    for l in open(kf):
                        m = re.match(r"finding:\s*property=(\S+)\s+obligation=(\S+)", l)
                        if m and m.group(1) == pid:
                            known.add(m.group(2))
                if name in known and not os.environ.get("VERIF_PLAYBACK_KNOWN"):
                    # a recorded known finding: the witness was replayed when it was recorded; do not spend a playback on every run
                    f["witness"] = "recorded known finding (set VERIF_PLAYBACK_KNOWN=1 to replay)"
                    f["replayed"] = False
                    out["failures"].append(f)
                    continue
                pb, err = playback(dst, pkg, n, scratch)
                if pb:
                    f["witness"] = "kani concrete playback %s" % pb["test"]
                    f["replayed"] = pb["native_failed"]
                    f["replay_output"] = pb["generated"] + "\n---- native run (cargo kani playback) ----\n" + pb["native_output"]
                    if not pb["native_failed"]:
                        f["witness"] = None
                        f["rendered"] += "\n(native playback did not reproduce the failure)\n"
                else:
                    f["rendered"] += "\n" + (err or "")
                out["failures"].append(f)
            else:
                out["status"] = "undecided"
                out["undecided_reason"] += "%s: %s; " % (n, r["detail"] or "no verdict")
            if kind == "bounded":
                bounded.append("%s %s" % (n, h["cls"]))
            out["samples"].append("%s [%s, %s] %s %.2fs" % (name, h["cls"], s["target"], r["result"], r["time"]))
    if bounded:
        out["bounded"] = dict(engine="kani", harnesses=bounded)
    if out["failures"]:
        out["status"] = "violation"
    return out


if __name__ == "__main__":
    import json
    pid, sets = sys.argv[1], sys.argv[2:]
    sc = "/root/scratch/kdev"
    r = run_task(pid, dict(sets=sets), os.environ.get("VERIF_TIER", "quick"), sc, 0)
    print(json.dumps({k: v for k, v in r.items() if k not in ("failures",)}, indent=1)[:4000])
    for f in r["failures"]:
        print("FAIL", f["obligation"], f["message"], "witness=", f.get("witness"), "replayed=", f.get("replayed"))
        print((f.get("replay_output") or "")[:1500])
