"""Minimal Rust lexer + item locator used by the extractor.

Works on rustfmt-formatted source text.  It never rewrites bodies with regexes:
everything is located by tokens (comments, strings, chars and lifetimes are
recognised so that braces inside them are ignored) and copied verbatim by
character offsets.
"""
import re

IDENT_START = set("abcdefghijklmnopqrstuvwxyzABCDEFGHIJKLMNOPQRSTUVWXYZ_")
IDENT_CONT = IDENT_START | set("0123456789")


class Tok:
    __slots__ = ("kind", "text", "start", "end")

    def __init__(self, kind, text, start, end):
        self.kind, self.text, self.start, self.end = kind, text, start, end

    def __repr__(self):
        return "Tok(%s,%r,%d)" % (self.kind, self.text, self.start)


class LexError(Exception):
    pass


def lex(src):
    """Return list of Tok (comments are dropped, whitespace dropped)."""
    toks = []
    i, n = 0, len(src)
    while i < n:
        c = src[i]
        if c.isspace():
            i += 1
            continue
        if src.startswith("//", i):
            j = src.find("\n", i)
            i = n if j < 0 else j
            continue
        if src.startswith("/*", i):
            depth, j = 1, i + 2
            while j < n and depth:
                if src.startswith("/*", j):
                    depth += 1
                    j += 2
                elif src.startswith("*/", j):
                    depth -= 1
                    j += 2
                else:
                    j += 1
            i = j
            continue
        # raw identifiers r#type
        m = re.match(r"r#[A-Za-z_][A-Za-z0-9_]*", src[i:i + 64])
        if m and (i == 0 or src[i - 1] not in IDENT_CONT):
            toks.append(Tok("id", m.group(0), i, i + m.end()))
            i += m.end()
            continue
        # raw strings r"..", r#".."#, br#".."#
        m = re.match(r'b?r(#*)"', src[i:i + 40])
        if m:
            hashes = m.group(1)
            close = '"' + hashes
            j = src.find(close, i + m.end())
            if j < 0:
                raise LexError("unterminated raw string at %d" % i)
            j += len(close)
            toks.append(Tok("str", src[i:j], i, j))
            i = j
            continue
        if c == '"' or (c == "b" and i + 1 < n and src[i + 1] == '"'):
            j = i + (2 if c == "b" else 1)
            while j < n and src[j] != '"':
                j += 2 if src[j] == "\\" else 1
            j += 1
            toks.append(Tok("str", src[i:j], i, j))
            i = j
            continue
        if c == "'" or (c == "b" and i + 1 < n and src[i + 1] == "'"):
            k = i + (1 if c == "b" else 0)
            # char literal or lifetime
            if k + 2 < n and src[k + 1] == "\\":
                j = k + 2
                while j < n and src[j] != "'":
                    j += 1
                j += 1
                toks.append(Tok("char", src[i:j], i, j))
                i = j
                continue
            if k + 2 < n and src[k + 2] == "'":
                j = k + 3
                toks.append(Tok("char", src[i:j], i, j))
                i = j
                continue
            # multi-byte char literal e.g. 'é'
            m2 = re.match(r"'[^'\\\n]'", src[k:k + 8])
            if m2 and not (src[k + 1] in IDENT_START and src[k + 2] in IDENT_CONT):
                j = k + m2.end()
                toks.append(Tok("char", src[i:j], i, j))
                i = j
                continue
            # lifetime
            j = k + 1
            while j < n and src[j] in IDENT_CONT:
                j += 1
            toks.append(Tok("life", src[i:j], i, j))
            i = j
            continue
        if c in IDENT_START:
            j = i + 1
            while j < n and src[j] in IDENT_CONT:
                j += 1
            toks.append(Tok("id", src[i:j], i, j))
            i = j
            continue
        if c.isdigit():
            j = i + 1
            while j < n and (src[j] in IDENT_CONT or (src[j] == "." and j + 1 < n and src[j + 1].isdigit())):
                j += 1
            toks.append(Tok("num", src[i:j], i, j))
            i = j
            continue
        # punctuation: keep multi-char ones we care about
        for p in ("->", "=>", "::", "..=", "..", "&&", "||", "==", "!=", "<=", ">=", "+=", "-=", "*=", "/=", "|=", "&=", "<<=", ">>=", "<<", ">>"):
            if src.startswith(p, i):
                toks.append(Tok("p", p, i, i + len(p)))
                i += len(p)
                break
        else:
            toks.append(Tok("p", c, i, i + 1))
            i += 1
    return toks


OPEN = {"(": ")", "[": "]", "{": "}"}
CLOSE = {")": "(", "]": "[", "}": "{"}


def match_close(toks, i):
    """toks[i] is an opening bracket; return index of the matching closer."""
    assert toks[i].text in OPEN, toks[i]
    depth = 0
    for j in range(i, len(toks)):
        t = toks[j]
        if t.kind != "p":
            continue
        if t.text in OPEN:
            depth += 1
        elif t.text in CLOSE:
            depth -= 1
            if depth == 0:
                return j
    raise LexError("unbalanced bracket at offset %d" % toks[i].start)


QUALS = {"pub", "const", "async", "unsafe", "extern", "default"}


def item_start(toks, k):
    """toks[k] is the item keyword (fn/struct/...). Walk back over qualifiers and
    attributes; return index of first token of the item."""
    j = k
    while j > 0:
        p = toks[j - 1]
        if p.kind == "id" and p.text in QUALS:
            j -= 1
            continue
        if p.kind == "str" and j >= 2 and toks[j - 2].text == "extern":
            j -= 1
            continue
        if p.kind == "p" and p.text == ")":
            # pub(crate) / pub(super)
            o = j - 1
            depth = 0
            while o >= 0:
                if toks[o].text == ")":
                    depth += 1
                elif toks[o].text == "(":
                    depth -= 1
                    if depth == 0:
                        break
                o -= 1
            if o >= 1 and toks[o - 1].text == "pub":
                j = o - 1
                continue
            break
        if p.kind == "p" and p.text == "]":
            o = j - 1
            depth = 0
            while o >= 0:
                if toks[o].text == "]":
                    depth += 1
                elif toks[o].text == "[":
                    depth -= 1
                    if depth == 0:
                        break
                o -= 1
            if o >= 1 and toks[o - 1].text == "#":
                j = o - 1
                continue
            break
        break
    return j


class Item:
    def __init__(self, kind, name, toks, first, kw, last, body_open=None):
        self.kind, self.name = kind, name
        self.toks = toks
        self.first, self.kw, self.last = first, kw, last  # token indices (inclusive)
        self.body_open = body_open  # token index of '{' for fn/impl/enum/struct-with-braces

    @property
    def start(self):
        return self.toks[self.first].start

    @property
    def end(self):
        return self.toks[self.last].end


ITEM_KW = {"fn", "struct", "enum", "const", "static", "type", "impl", "trait", "mod", "union"}


def scan_items(toks, lo, hi):
    """Yield Items found at bracket depth 0 inside token range [lo, hi)."""
    i = lo
    while i < hi:
        t = toks[i]
        if t.kind == "p" and t.text in OPEN:
            i = match_close(toks, i) + 1
            continue
        if t.kind == "id" and t.text in ITEM_KW:
            kw = t.text
            # `const fn`, `const unsafe fn` : the const is a qualifier
            if kw == "const" and i + 1 < hi and toks[i + 1].kind == "id" and toks[i + 1].text in ("fn", "unsafe", "async", "extern"):
                i += 1
                continue
            if kw in ("unsafe",):
                i += 1
                continue
            # macro invocation like `type!` – ignore
            first = item_start(toks, i)
            if kw == "impl":
                # header runs to '{' at depth 0
                j = i + 1
                while j < hi and not (toks[j].kind == "p" and toks[j].text == "{"):
                    if toks[j].kind == "p" and toks[j].text in OPEN:
                        j = match_close(toks, j)
                    j += 1
                close = match_close(toks, j)
                yield Item("impl", None, toks, first, i, close, j)
                i = close + 1
                continue
            if i + 1 >= hi or toks[i + 1].kind != "id":
                i += 1
                continue
            name = toks[i + 1].text
            j = i + 2
            body = None
            while j < hi:
                tj = toks[j]
                if tj.kind == "p" and tj.text == ";":
                    break
                if tj.kind == "p" and tj.text == "{":
                    body = j
                    j = match_close(toks, j)
                    if kw in ("const", "static", "type"):
                        # braces inside an initialiser expression; keep going to ';'
                        body = None
                        j += 1
                        continue
                    break
                if tj.kind == "p" and tj.text in OPEN:
                    j = match_close(toks, j)
                j += 1
            yield Item(kw, name, toks, first, i, j, body)
            i = j + 1
            continue
        i += 1


def norm_ws(s):
    return re.sub(r"\s+", " ", s).strip()


class Source:
    def __init__(self, path, text):
        self.path, self.text = path, text
        self.toks = lex(text)
        self.top = list(scan_items(self.toks, 0, len(self.toks)))

    def line_of(self, off):
        return self.text.count("\n", 0, off) + 1

    def find_top(self, kind, name):
        r = [it for it in self.top if it.kind == kind and it.name == name]
        return r

    def impl_header(self, it):
        return norm_ws(self.text[self.toks[it.kw].start:self.toks[it.body_open].start])

    def impls(self, header=None, type_name=None):
        """impl blocks whose normalised header equals `header`, or inherent impls of type_name."""
        out = []
        for it in self.top:
            if it.kind != "impl":
                continue
            h = self.impl_header(it)
            if header is not None:
                if h == norm_ws(header):
                    out.append(it)
            else:
                # inherent impl of type_name:  impl<..> Name<..>   (no ' for ')
                hh = re.sub(r"^impl\s*(<[^>]*>)?\s*", "", h)
                if " for " in h:
                    continue
                base = re.match(r"([A-Za-z_][A-Za-z0-9_]*)", hh)
                if base and base.group(1) == type_name:
                    out.append(it)
        return out

    def members(self, impl_item):
        return list(scan_items(self.toks, impl_item.body_open + 1, impl_item.last))

    def mods(self, name):
        return [it for it in self.top if it.kind == "mod" and it.name == name and it.body_open is not None]
