NOTES = ("Contract-based deductive verification of the real code. Engine V: Verus on functions extracted verbatim from /repo "
         "each run (rewrite rules listed in DESIGN.md 3.1 and logged per run in evidence.coverage.rewrites_applied). "
         "Engine K: Kani function contracts / loop-free complete harnesses on the real crate; bounded harnesses are labelled bounded. "
         "Engine B: bounded check of assumed SQL contracts on real SQLite. Exit 2 = undecided (tool limit), never an alarm.")

TEXT = {
 "C16": dict(
   technique="Verus contracts on GenericTokenBucket::{get_tokens_with_time,check,deplete} + inductive rate-bound lemma over the contracts",
   level="Unbounded deductive proof (Verus/Z3) that check/deplete on the real code equal the spec avail()/after_grant() for every bucket state, clock value and cost, "
         "and machine-checked lemmas that any event sequence is granted at most BURST + RATE*(t2-t1) and that a bucket idle for the refill period grants any cost <= BURST.",
   note="Assumed: std::cmp::max and u32::div_ceil specs; clock in [50, 0xF0000000]; deplete at the same clock reading as its check; one bucket (the two-bucket hashing, "
        "RwLock read-then-write race and HMAC cookie validation are not under contract yet).",
 ),
}

TEXT["C07"] = dict(engine="kani",
   technique="Kani complete (loop-free/fixed-trip, full-domain) harnesses on the real address conversion functions",
   level="Complete proof over all 2^32 IPv4 and 2^128 IPv6 addresses that the source address put in the IP_PKTINFO control message "
         "(std_to_libc_in_addr / std_to_libc_in6_addr, both copies) is in network byte order and is the exact inverse of RecvMsg::local_ip. "
         "Only this clause of C07 (reply sent from the address it was addressed to) is decided.",
   note="NOT decided by this family here: exactly-one-reply, own-answer under reordering/duplication/loss, retry/backoff/timeout bounds, TCP id->waiter map "
        "(schedules and I/O faults; Kani has no threads, Verus would need its own permission types). Trusted: Kani/CBMC, libc struct layout.")
TEXT["C08"] = dict(engine="kani",
   technique="Kani complete harnesses: Prefix4/Prefix6 containment against a written-prefix spec for all addresses and prefix lengths",
   level="Complete proof (symbolic u32/u128 addresses, all prefix lengths the loader admits) that contains() <=> the top min(len,W) bits agree with the written prefix, "
         "host bits or not, including v4-mapped clients and ::ffff:a.b.c.d/len prefixes, and that netmask/network are total.",
   note="Assumed: v6 prefixlen <= 128 (established by the loader fix c95f480, not yet under contract). ACL first-match logic and entry points: see coverage.functions_under_contract of the current evidence.")
TEXT["C12"] = dict(engine="kani",
   technique="Kani complete harness over all 65536 flag values on the real Dhcp::get_broadcast_flag",
   level="Complete proof that get_broadcast_flag() <=> flags & 0x8000 != 0.",
   note="Frame construction / codec round trip clauses: see evidence for what is under contract in this revision.")

TEXT["C05"] = dict(engine="verus+kani",
   technique="Verus no-panic/overflow/bounds/termination obligations on the extracted decoders (unbounded input) + Kani complete harness for Ipv4Subnet",
   level="Unbounded deductive proof: every index, slice, unwrap, arithmetic operation, assert!/unreachable! and every loop/recursion (decreases) in the decoders under contract "
         "is discharged for all byte strings of all lengths: pktparser::Buffer, all of dns/parse.rs (PktParser incl. compression-pointer recursion, EdnsParser), EdnsData accessors, "
         "dhcppkt::{parse,parse_options,null_terminated}, every LLDP Deserialise::from_wire. See evidence.coverage.functions_under_contract for the exact list.",
   note="Assumed: vstd std specs, stubs listed in evidence.assumptions (String::from_utf8, from_be_bytes wrappers, HashMap<DhcpOption,_> as a map, format! text dropped). "
        "Not decided: process-level liveness after hostile input; decoders not listed in functions_under_contract.")

TEXT["C03"] = dict(engine="verus",
   technique="Verus postcondition on the real DnsListenerHandler::create_in_reply (all sections, any number of records)",
   level="Unbounded deductive proof that the reply assembled for the client has the client's id and question, QR set, the upstream rcode and exactly the upstream "
         "answer/authority/additional sequences (whole-sequence equality, so nothing is invented, dropped, reordered or moved between sections).",
   note="Assumed: derived Clone is structural (R12). TTL ageing is C06; byte-level parse/serialise faithfulness is C14 (partly undecided); create_outquery / id matching in outquery.rs not yet under contract.")
TEXT["C04"] = dict(engine="verus",
   technique="Verus contract on DNSPkt::serialise_with_size (loop invariants over the three section loops) + emission-point preconditions on the UDP send stub",
   level="Unbounded deductive proof, for every message and every size limit >= 512: length <= size unless no record is kept, header counts are the numbers of records kept "
         "(prefix of answer++authority++additional, >= 11 octets each), TC bit <=> a record was omitted (or tc was set), other flag bits preserved; the UDP reply path (slice of run_udp) "
         "can only hand send_msg a buffer within max(512, advertised size); decoder floors the advertised size at 512.",
   note="Assumed: push_compressed_domain append-only contract (LinkedList dictionary outside Verus; Kani-bounded), section lengths fit 16-bit counts, Vec::splice exact semantics (R11). "
        "Not decided: that each kept record re-parses as one record (C14), question longer than the limit (never truncated by the encoder), TCP path length prefix.")

TEXT["C06"] = dict(engine="verus+kani",
   technique="Verus contracts on CacheHandler::{get_entry,insert_cache_entry,calculate_expiry,handle_query}, clone_out_reply, clone_with_ttl_decrement (R17 loop form) with a map invariant; Kani bounded for get_expiry",
   level="Unbounded deductive proof: the map invariant 'an Ok entry never lives longer than its smallest TTL' is preserved by insertion; get_entry returns a hit only for exactly the "
         "looked-up key and only while now <= birth+lifetime; every TTL of the served copy is the stored TTL minus the whole seconds since birth and this subtraction cannot wrap "
         "(precondition of clone_with_ttl_decrement discharged from the invariant); the key is exactly (name,type,DO,CD); zero lifetime is not stored. "
         "get_expiry == min TTL is checked only bounded (7 section shapes, symbolic TTLs) and assumed by the proof.",
   note="Assumed: time model (ns view), lock = invariant, vstd HashMap specs + key-model axiom for the derived Hash/Eq of CacheKey, derived Clone structural. expire() (garbage collection) not under contract.")
TEXT["C14"] = dict(engine="verus+kani",
   technique="Verus: header round-trip lemma over the encoder's and decoder's own contracts (bit_vector), decoder output re-encodable (pkt_wf), parser termination/pointer handling; Kani BOUNDED harnesses on the real push_compressed_domain / push_prefix",
   level="PARTIAL. Deductive (unbounded): every flag/opcode/rcode bit written by serialise_with_size is read back unchanged by get_dns (lemma_header_roundtrip over flag1_of/flag2_of and the decoder's bit tests); every message the decoder returns satisfies the encoder's preconditions; get_domain_into terminates and only follows in-range pointers. "
         "BOUNDED (Kani, not a proof): for names of <= 2 one-octet labels and two consecutive pushes (same name, suffix, sibling, high offset), any base offset 0..=65535: no panic, each emitted pointer < 16384, points backwards inside the message to the right label; names first written at offset >= 16384 are written out again.",
   note="NOT decided: decode(encode(m)) == m for whole messages of any size (needs an unbounded invariant of the LinkedList suffix tree, outside Verus' accepted subset and far beyond Kani's reach). Defect D14 (offsets >= 16384 reused) was found here, replayed on the real code and fixed (c3f5e63).")
TEXT["C15"] = dict(engine="verus",
   technique="Verus contract on DnsRouteHandler::handle_query with nested loop invariants (ghost index of the best suffix), Domain::ends_with against a case-insensitive whole-label spec",
   level="Unbounded deductive proof for all route tables and query names: if any (route,suffix) matches, the outcome is that of a route holding a longest matching suffix "
         "(forge-nxdomain -> Blocked without reaching the resolver; forward without RD -> NotAuthoritative; forward with RD -> resolver called with that route's first server; "
         "no servers -> NoRouteConfigured); if none matches -> NoRouteConfigured. ends_with == ASCII case-insensitive whole-label suffix (empty suffix matches all). "
         "Order independence follows because the postcondition is stated over the set of matching pairs.",
   note="Assumed: <[u8]>::eq_ignore_ascii_case spec, Ordering ==, label tie-break comparison (Vec<Label>::cmp) left unspecified (ties are free per the property). Route parsing from YAML not under contract.")

TEXT["C01"] = dict(engine="verus+engineB",
   technique="Verus contracts on Pool::{select_requested_address,select_new_address,select_address,allocate_address} over an abstract lease table + lemma over the contract; SQL statements replaced by stubs whose assumed contracts are checked bounded on real SQLite",
   level="Unbounded deductive proof (all tables, pools, clients, clock values) that a successful allocation writes exactly one row, that of an address on which no other client has an unexpired row, "
         "and lemma_no_double_lease: such a step preserves every unexpired binding of every other client and never creates a second binding. Errors leave the table unchanged. "
         "The SQL statements themselves are outside any verifier: their contracts are assumed and checked exhaustively for all tables of <=2 (quick) / <=3 (thorough) rows on real SQLite (bounded, not counted as proved).",
   note="Assumed: SQL stub contracts beyond the bound, SQLite durability (restart = same table), clock monotone < 0xF0000000, Ipv4Addr text axioms, single task holding the pool mutex. handle_discover/handle_request: see C13/C10 evidence.")
TEXT["C09"] = dict(engine="verus+engineB",
   technique="Verus postconditions on Pool::select_address / allocate_address (loop invariant over the client's unexpired rows) + engine B bounded on real SQLite",
   level="Unbounded deductive proof: if the client holds an unexpired lease on an address of the pool it is served from, the result is such an address, the requested one if it holds it; "
         "NoAssignableAddress only if every address of the pool has an unexpired row. Bounded confirmation on the real code with real SQLite (all tables <=2/<=3 rows, every pool subset, every requested address).",
   note="Assumed: SQL stub contracts (sql_live_own_all, sql_any_own, sql_in_use, sql_upsert) beyond the engine-B bound; Ipv4Addr Display/FromStr inverse. REQUEST address choice (ciaddr else option 50): see dhcphandlers in C13 evidence when claimed.")
TEXT["C20"] = dict(engine="verus+engineB",
   technique="Verus on the R9 slice of serve_leases building the entry list (R17 loop form) + bounded exhaustive check of the gauge and listing SQL statements on real SQLite",
   level="Deductive (unbounded): the listing has exactly one formatted entry per lease returned by get_leases, for any number of leases. BOUNDED (not a proof): for every lease table with <=2 (quick) / <=3 (thorough) rows over 2 clients and expiry in {now-100, now+100, now+200}, including the empty table: "
         "get_pool_metrics == (|expiry > now|, |expiry <= now|) and get_leases returns exactly one entry per row with equal address, client id, start and expiry. "
         "These functions consist of one SQL statement each, which no installed deductive verifier can reach; the bounded stand-in is the strongest check available.",
   note="NOT decided: JSON validity of the /api/v1/leases.json body (depends on core::fmt's {:?} of arbitrary strings; outside Verus, too expensive for Kani). update_metrics gauge wiring not under contract yet.")

TEXT["C10"] = dict(engine="verus+engineB",
   technique="Verus postconditions on handle_discover / handle_request / handle_pkt over the pool contract (lease_recorded), DhcpParse impls in unit dhcpgetters, engine B bounded on real SQLite",
   level="Unbounded deductive proof: every successful reply (OFFER and ACK) carries option 51 equal to recorded_expiry - recorded_start of the row written for yiaddr, "
         "that value lies in [300, 86400] (the defaults; nothing can set other bounds), the record starts at the clock reading of the reply and expiry = start + L without wrap-around.",
   note="Assumed: SQL stub contracts, clock < 0xF0000000, apply_policies leaves min/max lease untouched, ResponseOptions/DhcpOptions accessor contracts (HashMap glue). Renewal rhythm is covered because the bound holds for every table and request.")
TEXT["C11"] = dict(engine="verus",
   technique="Verus postconditions on the real check_policy / check_policies / apply_policy / apply_policies (mutual recursion over the policy tree, HashMap iteration through vstd's prophetic iterator contract) and on the five ResponseOptions methods, against a recursive specification written from the property statement",
   level="Unbounded deductive proof, for every policy tree, request and prior response state: check_policy returns MatchFailed iff some condition fails, else MatchSucceeded iff the policy has a condition, else NoMatch; "
         "apply_policy/apply_policies return whether a policy applies (all conditions hold and, without conditions, some sub-policy applies) and leave the response equal to apply_one/apply_list: only the first applicable sibling is applied, "
         "a policy's own apply-options (restricted to the client's parameter request list; null stored as do-not-send) override what outer policies set, then its first applicable child is applied, then netmask (1) / broadcast (28) of its match-subnet are filled in unless already set or nulled; "
         "non-applicable policies change nothing; lease bounds are never touched; to_options sends exactly the entries that carry a value.",
   note="Not decided: build_default_config (top-level defaults, $self4 substitution, MTU/router of the receiving interface) -- iterator-adapter chains, see DESIGN 10; interface matching (match-interface is parsed but never evaluated by the code). Assumed: see evidence.")
TEXT["C13"] = dict(engine="verus+engineB",
   technique="Verus postconditions on handle_pkt / handle_request / handle_discover (frame over the abstract lease table, echo of header fields, server-id) + engine B frame check on real SQLite",
   level="Unbounded deductive proof: handle_pkt returns Ok only for message types 1 (DISCOVER) and 3 (REQUEST); every Err leaves the lease table exactly as it was; a REQUEST whose "
         "server-id option (4 octets) is none of this server's identifiers returns OtherServer; a reply echoes xid, chaddr, giaddr and flags, carries option 54 (the receiving address, or the "
         "client-named identifier which is one of ours), and the table differs from the old one only at the row of yiaddr.",
   note="Assumed: accessor contracts of DhcpOptions/ResponseOptions (HashMap glue), SQL stub contracts; recvdhcp's serverids bookkeeping (async, locks) not under contract.")

TEXT["C17"] = dict(engine="verus+kani",
   technique="Verus postcondition on the real icmppkt::serialise_router_advertisement (eight loops, per-arm lemmas proved in isolation) against spec functions written from RFC 4861 4.2/4.6, RFC 8106 5.1/5.2, RFC 8781 4, RFC 8910 2.3; Kani complete harnesses for the serialisation primitives the Verus proof assumes",
   level="Unbounded deductive proof, for every RtrAdvertisement value with any number of options: output == header ++ concat(option encodings): hop limit, M/O flags, router lifetime / reachable / retransmit clamped (never wrapped) to 16/32 bits; MTU; prefix information with "
         "flags, clamped lifetimes, zero reserved field and zero bits beyond the prefix length; RDNSS split into options of 1..127 servers in order; DNSSL with the encodable names in order, zero padding, omitted when empty; PREF64 with the RFC 8781 length code and 13-bit scaled lifetime, "
         "omitted for inexpressible lengths; captive-portal URL zero padded; message length a multiple of 8; every option exactly 8 x its length octet. Kani (complete): u8/u16/u32/Ipv6Addr serialise big-endian, prefix_mask has exactly the first n bits set, PLC tables inverse.",
   note="Not decided: the path from YAML to radv::config::Interface, build_announcement (async netinfo lookups). Tri-state defaults of build_announcement_pure: see unit rabuild if present in evidence.")
TEXT["C18"] = dict(engine="verus+engineB",
   technique="Verus contracts on Pool::{setup_db, upgrade_schema_from_no_version, upgrade_schema_from_version_0} over a ghost database (version row, write counter) with a terminating loop, allocate_address write frame, engine B reopening file-backed SQLite databases",
   level="Unbounded deductive proof: setup_db terminates, preserves the lease rows, ends with schema version 1, takes the upgrade steps in order each followed by the version record, and refuses a "
         "database whose stored version is above 1 before any statement has written (emission-point assertion on the write counter); allocate_address writes exactly one row and only after every error return. "
         "Bounded on real SQLite: for every table of the bound, rows survive close+reopen of a file-backed database, a version-0 schema file is upgraded with rows preserved, a version-2 file is refused and left unmodified.",
   note="NOT decided: kill at an arbitrary instant (durability and atomicity of SQLite's autocommit are trusted), 'behaves exactly as an uninterrupted server' beyond 'same table => same contract'. "
        "R18: functions writing through self.conn are given &mut self in the extracted text.")

TEXT["C02"] = dict(engine="verus+kani+engineB",
   technique="Verus on R9 slices of the real range expansions (apply-subnet loop, default-pool expression desugared by R17b) against the documented sets, pool-membership postconditions of the allocation functions, Kani complete harness for Ipv4Subnet",
   level="Unbounded deductive proof for every prefix length 0..=32 and every network: the apply-subnet loop appends exactly network+1 ..= network+2^(32-len)-2 (nothing for /31,/32) without overflow; "
         "the default pool of an `addresses:` prefix is exactly {hosts} minus the server address minus every policy-used address; every address granted by allocate_address belongs to the set it was given. "
         "Ipv4Subnet::{new,netmask,network,broadcast,contains} complete over all 2^32 x 256 inputs (Kani).",
   note="NOT decided: apply-range (inclusive range loop: no vstd ghost-iterator spec; yaml containers block Kani), reservation subtraction at the end of parse_policy, policy override of address sets (C11), YAML -> values.")

TEXT["C19"] = dict(engine="verus+kani",
   technique="Verus no-panic/no-overflow obligations on the extracted leaf parsers (type_to_name, parse_i64/string/boolean, hexdigit, str_duration incl. its closure and chars loop) + consumers' preconditions discharged for every value the loader admits (Kani complete prefix harnesses, Verus range slices, router)",
   level="Unbounded deductive proof that the leaf parsers under contract are total: every unwrap, index, cast and arithmetic operation is discharged for all YAML values / all strings of any length "
         "(str_duration: digits*10+d, n*unit and the running sum use checked arithmetic; a unit without number is an error). Accepted => safe: Prefix4/Prefix6/Ipv4Subnet operations are total for every "
         "prefix length the loader admits (complete Kani), the host-range expansions cannot overflow for any length 0..=32, a forward route without servers yields an error reply.",
   note="NOT decided: totality of yaml_rust::YamlLoader and of load_config_from_string's dispatch as a whole; str_prefix*/str_hwaddr/parse_array/parse_routes bodies (split/parse/iterator chains); that every manual example loads (that is a test, and the suite has it).")

# ---- revisions (later rounds) ----
TEXT["C02"].update(note="NOT decided: apply-range (inclusive range loop: no vstd ghost-iterator spec for RangeInclusive; yaml containers block Kani); YAML -> values. "
    "Reservation subtraction (an address reserved by a more specific policy) IS decided: unit dhcpused. Policy override of address sets: C11.")
TEXT["C12"].update(engine="kani+verus",
    technique="Kani complete harnesses on the real Dhcp::get_broadcast_flag and on the Internet checksum (partial_netsum/finish_netsum against a reference fold); "
              "Verus exact decoding contract on dhcppkt::parse_options (RFC 2132/3396: pad, end, concatenation of repeated options)",
    level="Complete (Kani): get_broadcast_flag() <=> flags & 0x8000 != 0 over all 65536 flag values; finish_netsum is the end-around-carry fold for all 2^32 partial sums and agrees with an independent reference. "
          "Unbounded deductive (Verus): parse_options returns exactly the RFC decoding of any option area (repeated options concatenated, zero-length options kept, pad skipped, end stops). "
          "Thorough tier only, and reported undecided when CBMC times out: whole-frame length/checksum harnesses (udp4_frame_valid_len*).",
    note="NOT decided: encode-then-decode round trip for whole DHCP messages (serialise iterates a HashMap; option values longer than 255 octets are NOT split by the encoder: observation D12b, DESIGN 8), "
         "Ethernet/IPv4/UDP frame assembly beyond the checksum primitives (Kani times out on the Vec/Box frame builders; not yet in Verus).")
TEXT["C16"].update(engine="verus+kani",
    technique="Verus contracts on GenericTokenBucket::{get_tokens_with_time,check,deplete} + inductive rate-bound lemma over the contracts; R9 slice of should_ratelimit (cost of a REFUSED reply); "
              "Verus contracts on CookieKeys::{new,rotate} and validate_cookie_key(s) with HMAC uninterpreted; Kani function contracts on check/deplete with native replay",
    note="KNOWN FINDING D16 (recorded, not repaired: the repair is a policy decision, see DESIGN 8): the minimum charge of a REFUSED reply is 200 tokens, the bucket holds 100, so a source without a valid cookie never gets a REFUSED (quiet-client clause). "
         "Assumed: std::cmp::max and u32::div_ceil specs; clock in [50, 0xF0000000]; deplete at the same clock reading as its check; HMAC-SHA256 collision-free; the two-bucket hashing and the RwLock read-then-write race are not under contract.")
TEXT["C08"].update(note="Assumed: v6 prefixlen <= 128 (established by the loader fix c95f480). NOT under contract: Acl::check first-match iteration and the entry points (DnsAclHandler, http serve_request) -- "
    "the missing ACL check on /api/v1/leases.json (D8b) was found by reading and fixed (e88efee), not by a check that is still running.")
TEXT["C05"].update(note=TEXT["C05"].get("note", "") + " ICMPv6 (radv/icmppkt.rs parse*) is NOT yet under contract; its serialiser is (C17).")

NA = {}

TEXT["C12"].update(engine="verus+kani",
    technique="Verus: the real serialise_option and <DhcpOptions as Serialise>::serialise against the RFC 2132/3396 encoding (HashMap iteration via vstd's prophetic iterator contract), the real parse_options against the RFC decoding dec_opts, and a machine-checked round-trip lemma between the two specifications; "
              "Kani complete harnesses on Dhcp::get_broadcast_flag and the Internet checksum primitives",
    level="Unbounded deductive proof: for every option table (any number of options, values of any length including 0 and more than 255 octets -- split into runs of at most 255 --, codes 1..=254) the option area written is enc_table ++ [255], "
          "and dec_opts(enc_table ++ [255]) is exactly the table (lemma_roundtrip); parse_options returns dec_opts of any byte string (repeated options concatenated, zero-length kept, pad skipped). "
          "Complete (Kani): get_broadcast_flag() <=> flags & 0x8000 != 0 over all 65536 values; finish_netsum is the end-around-carry fold for all 2^32 partial sums and agrees with an independent reference. "
          "Thorough tier only, undecided when CBMC times out: whole-frame length/checksum harnesses.",
    note="NOT decided: the fixed 236-octet header part of Dhcp::serialise (serialise_fixed padding/truncation against parse's null_terminated), Ethernet/IPv4/UDP frame assembly beyond the checksum primitives (Kani times out on the Vec/Box frame builders; not yet in Verus). "
         "Assumed: the encoder's HashMap view m@ and the decoder's abstract table opts_view describe the same table; Serialise for u8 pushes the octet; slice::chunks. Defect D12b (length octet wrap for values over 255 octets) found here and fixed (649d304).")

TEXT["C08"].update(engine="verus+kani",
    technique="Verus postconditions on the real Acl::check / check_authenticated / require_permission against a first-match specification (iterator adapters any/find_map desugared by R17d/R17e), "
              "emission-point preconditions (ghost permission tokens, R19) on R9 slices of the three HTTP endpoint arms of serve_request and on DnsAclHandler::handle_query; Kani complete harnesses for prefix containment",
    level="Unbounded deductive proof for every rule list and client: require_permission returns Ok exactly when the first rule whose conditions hold (some written subnet contains the address, unix-ness as required) exists and has the permission; "
          "no matching rule => NotAuthenticated; first matching rule lacks it => NotAuthorised. The welcome page, /metrics, /api/v1/leases.json and everything behind the DNS ACL handler (routing, cache, forwarding) can only be reached with the matching permission granted; a refused HTTP client gets the 403 response, a refused DNS client RefusedByAcl. "
          "Complete (Kani): Prefix4/Prefix6::contains <=> the top min(len,W) bits agree with the written prefix, for all addresses and lengths, including IPv4-mapped clients and ::ffff:a.b.c.d/len prefixes.",
    note="Assumed: dispatch of Prefix::contains over the address families and NetAddr accessors (opaque); lock acquisition as plain read; hyper's routing of method/path to an arm. v6 prefixlen <= 128 established by the loader fix c95f480.")

TEXT["C05"].update(note=TEXT["C05"]["note"].replace(" ICMPv6 (radv/icmppkt.rs parse*) is NOT yet under contract; its serialiser is (C17).", "") + " ICMPv6: radv/icmppkt.rs parse / parse_nd_rtr_* are under contract (unit icmpparse).",
    level=TEXT["C05"]["level"].replace("every LLDP Deserialise::from_wire.", "every LLDP Deserialise::from_wire, the ICMPv6 router solicitation/advertisement decoder (radv/icmppkt.rs parse*)."))

TEXT["C12"].update(
    technique=TEXT["C12"]["technique"] + "; Verus on the real erbium-net frame builder (packet.rs: partial_netsum, finish_netsum, Tail/Fragment incl. the Box-recursive chain, new_ethernet/new_ipv4/new_udp4, flatten) and an R9 slice of the reply-destination choice",
    level=TEXT["C12"]["level"].replace("Thorough tier only, undecided when CBMC times out: whole-frame length/checksum harnesses.",
        "Frame (Verus, unbounded, any payload up to 65507 octets): flatten(new_udp4(..)) == Ethernet header ++ IPv4 header (version 4, IHL 5, total length 28+n, TTL 1, protocol 17, addresses) ++ UDP header (ports, length 8+n) ++ the unmodified payload; "
        "the IPv4 checksum field is the Internet checksum of the header and VERIFIES (lemma: re-summing gives all ones), likewise the UDP checksum over pseudo-header, header and data; partial_netsum == sum of big-endian words, finish_netsum == one's-complement fold; "
        "the IPv4 destination is 255.255.255.255 exactly when the request's flags have bit 15 set, otherwise yiaddr."),
    note="NOT decided: the fixed 236-octet header part of Dhcp::serialise (serialise_fixed padding/truncation against parse's null_terminated). A DHCP reply larger than 65507 octets would overflow the 16-bit length arithmetic of new_udp4/new_ipv4 (precondition of the frame contract; the send path does not bound the serialised size -- observation, DESIGN 8). "
         "Assumed: the encoder's HashMap view m@ and the decoder's abstract table opts_view describe the same table; Serialise for u8 pushes the octet; slice::chunks; nix SockaddrIn accessors; derived Clone of Fragment structural. Defect D12b found here and fixed (649d304).")

TEXT["C17"].update(
    level=TEXT["C17"]["level"] + " build_announcement_pure (Verus, unbounded): header fields copied; one prefix option per configured prefix, in order, with its flags/lifetimes/address; recursive DNS servers / search list / captive portal: the interface's value wins, null (DontSet) gives no option, "
          "not specified falls back to the top-level setting with the unspecified address replaced by the interface's own address and IPv4 servers dropped; lifetimes default to 1800 s; PREF64 copied; exact option order; every link-layer option is 6 octets (the serialiser's precondition).",
    note="Not decided: the path from YAML to radv::config::Interface beyond the sliced tri-state arms, build_announcement (async netinfo lookups: which interface address becomes $self6, MTU).")

TEXT["C11"].update(
    level=TEXT["C11"]["level"] + " Top-level defaults (Verus, R9 slices of build_default_config): the base policy always matches and carries exactly DNS servers (option 6: IPv4 servers in order, 0.0.0.0 = $self4 replaced by the address the request arrived on, IPv6 servers left out), "
          "search list (119) and captive portal (114, an explicit do-not-send entry when none is configured); for the subnet the request arrived on: interface MTU (26) and default router (3), nothing else touched; handle_discover/handle_request apply the base policy FIRST and the configured policies after it, so those override it.",
    note="Not decided: the construction of the base policy's sub-policy list around the slices (filter_map over `addresses`), interface matching (match-interface is parsed but never evaluated by the code), if_mtu > 65535. Assumed: see evidence.")

TEXT["C07"].update(engine="kani+verus",
    technique="Kani complete harnesses on the real address conversion functions; Verus on create_outquery, the waiter registration of TcpNameserver::send_tcp_query (R9 slice) and send_tcp_reply (HashMap<u16, waiter> through vstd's specs)",
    level="Complete (Kani), all 2^32 IPv4 / 2^128 IPv6 addresses: the source address put in the IP_PKTINFO control message is in network byte order and the exact inverse of RecvMsg::local_ip (reply sent from the address it was addressed to). "
          "Unbounded deductive (Verus): the query forwarded upstream carries the chosen id and exactly the client's question; registering a forwarded query on a shared upstream TCP connection never panics, terminates, never overwrites or loses a waiter in flight and stores the new waiter under a free id; "
          "a reply is handed to the waiter registered under its id and to no other, which is then removed. ONLY these clauses of C07 are decided.",
    note="NOT decided by this family here: exactly-one-reply, behaviour under reordering/duplication/loss, retry/backoff/time-out bounds, SERVFAIL within bounded time (schedules, timers and I/O faults: Kani has no threads, Verus would need its own permission types around tokio). "
         "Seeded change C07-1 (a liveness defect) is accordingly not detected. Defect D07 (id collision panics the connection task) was found here by the no-panic obligation, demonstrated on the real code and fixed.")

TEXT["C12"].update(
    level=TEXT["C12"]["level"] + " Fixed part (Verus): Dhcp::serialise writes op/htype/hlen/hops, xid, secs, flags, the four addresses, chaddr/sname/file cut or zero padded to 16/64/128 octets and the magic cookie, followed by the option area; lemma_hdr_readback: those 240 octets read back, with the expressions of parse's own contract, to the same field values (chaddr when its length is hlen <= 16).",
    note=TEXT["C12"]["note"].replace("NOT decided: the fixed 236-octet header part of Dhcp::serialise (serialise_fixed padding/truncation against parse's null_terminated).", "NOT decided: read-back of sname/file (parse cuts them at the first zero octet: a value containing a zero octet does not survive, one without does -- not stated as a lemma)."))

TEXT["C20"].update(
    level=TEXT["C20"]["level"].replace("Deductive (unbounded): the listing has exactly one formatted entry per lease returned by get_leases, for any number of leases.",
        "Deductive (unbounded): the listing has exactly one formatted entry per lease returned by get_leases, for any number of leases; json_string (the only place where client-chosen text enters the listing) returns a JSON string literal per RFC 8259 section 7 for EVERY input string: "
        "quotation marks, reverse solidus and control characters escaped as \\\" \\\\ \\uXXXX, nothing else altered (machine-checked recogniser lemma)."),
    note="NOT decided: the text core::fmt produces for the address, the hex client id and the integers, and the punctuation of the enclosing format strings (dropped by R4). update_metrics gauge wiring not under contract. Gauge boundary expiry == now: engine B, bounded.")

TEXT["C04"].update(
    technique="Verus contract on DNSPkt::serialise_with_size (loop invariants over the three section loops) + decoder contract bounding every decoded name to 255 octets + emission-point preconditions on the UDP send stub and the TCP write stub (R9 slices of run_udp / run_tcp)",
    level=TEXT["C04"]["level"].replace("length <= size unless no record is kept", "length <= size ALWAYS (header + question are at most 12+255+4 octets because the decoder, proved, rejects names over 255 octets)")
        + " TCP (slice of run_tcp): the octets written are a two-octet big-endian length followed by exactly that many octets, which are the reply encoded with a limit of at least 65535 (so never truncated when it fits).",
    note="Assumed: push_compressed_domain appends between 1 and labels+1 octets (LinkedList dictionary outside Verus; Kani-bounded), section lengths fit 16-bit counts, Vec::splice / Vec::extend exact semantics (R11, R11b), replies handed to the serialiser are pkt_wf. "
         "Not decided: that each kept record re-parses as one record (C14); that a dropped record really did not fit (needs the octet-exact encoding). Defect D04b (names over 255 octets accepted, reply over the limit) found by strengthening this contract, fixed in e311220. "
         "Observation: run_tcp uses sock.write / sock.read (not write_all / read_exact) for the frame and the length prefix; a short write or read is not excluded (I/O schedule, outside this family).")

TEXT["C03"].update(
    level=TEXT["C03"]["level"] + " A reply served from the cache is the stored upstream reply for a query with the same name, type, DO and CD bits in class IN (non-IN questions never touch the map), with every TTL reduced by the whole seconds since it was stored and nothing else changed (units cache, dnsttl).")
TEXT["C02"].update(
    level=TEXT["C02"]["level"] + " At reply level (handle_discover / handle_request): yiaddr lies in the address set the policies selected for this request (base policy first, then the configured ones); which policy's set that is follows the first-applicable-sibling model of unit policy.")
TEXT["C09"].update(
    level=TEXT["C09"]["level"] + " At reply level: at a clock reading taken while the request was processed, a client holding an address of the pool it is served from is offered/acknowledged one it holds, and the one it names (DISCOVER: option 50; REQUEST: ciaddr if set, else option 50) when it holds that one -- so the address acknowledged after an offer is the one offered; NoAssignableAddress only when every address of that pool is in use.")

TEXT["C04"].update(
    level=TEXT["C04"]["level"] + " The message handed to the serialiser satisfies its preconditions (names <= 255 octets, section sizes within the 16-bit counts): proved from the decoder (>= 11 octets per decoded record, so a message of <= 65536 octets has < 5958 records) "
          "through build_dns_message, recv_in_query, create_in_reply and create_in_error (error replies: client's question, no records, REFUSED/NXDOMAIN/SERVFAIL); the reply slices now start at the decoding of the datagram / TCP frame.",
    note=TEXT["C04"]["note"].replace("replies handed to the serialiser are pkt_wf. ", "the handler chain behind the listener returns a decoded message or a client-facing error (proved for decoder, listener and ACL pass-through; router/cache/upstream layers not chained). "))
TEXT["C05"].update(
    level=TEXT["C05"]["level"] + " Listener: recv_in_query / create_in_error / build_dns_message and both reply paths are total given that the handler chain returns only client-facing errors (the four unreachable!() arms are obligations discharged from that precondition); "
          "upstream TCP connection: send_tcp_query and send_tcp_reply never panic (D07).")
TEXT["C07"].update(
    level=TEXT["C07"]["level"].replace("registering a forwarded query on a shared upstream TCP connection never panics, terminates, never overwrites or loses a waiter in flight and stores the new waiter under a free id;",
          "TcpNameserver::send_tcp_query (whole function): never panics, the id probing terminates, no waiter in flight is overwritten or lost, the new waiter is stored under a free id, a query is refused only when all 65536 ids are in flight, and -- emission-point precondition of the socket write -- the frame sent upstream carries as its DNS id an id under which THIS query's waiter is registered;"))
TEXT["C18"].update(
    level=TEXT["C18"]["level"] + " Engine B additionally drives every sequence of up to 3 allocate_address calls (2 clients x 3 pools, refused calls included) on a file-backed database and requires after each call that a second connection reads exactly what this process reads (every recorded lease is durable at once).")
TEXT["C19"].update(
    level=TEXT["C19"]["level"] + " Router-advertisement interval keys: the max arm stores only 4..1800 s, and the min/max cross-check `*min > 3 * *max / 4` is verified with std's Duration-overflow panics as operator preconditions (R9 slices arm_max_interval, arm_min_interval, interval_check).")
TEXT["C16"].update(
    note=TEXT["C16"]["note"] + " The hmac Mac comparison surface (verify_slice, verify_truncated_left/right) is stubbed with exact semantics over an uninterpreted 32-octet HMAC.")

TEXT["C02"].update(
    level=TEXT["C02"]["level"] + " apply-range: exactly start ..= end, both ends included, in order, nothing when start > end, no overflow at 255.255.255.255 (R9 slice apply_range_hosts, rule R21).",
    note=TEXT["C02"]["note"].replace("NOT decided: apply-range (inclusive range loop: no vstd ghost-iterator spec for RangeInclusive; yaml containers block Kani); YAML -> values. ", "NOT decided: YAML -> values. "))

TEXT["C19"].update(
    level=TEXT["C19"]["level"] + " Prefixes: str_prefix / str_prefix4 / str_prefix6 admit a prefix only with a length that fits its family (<= 32 / <= 128) -- the precondition of the Kani-proved consumers (R9 slices of the three closure bodies).",
    note=TEXT["C19"]["note"].replace("`str_prefix*`, ", "").replace("str_prefix*, ", ""))

TEXT["C08"].update(
    engine="verus+kani",
    level=TEXT["C08"]["level"] + " Body-independent bounded check (Kani, real Acl::check as a black box): rules with 0..2 symbolic IPv4 prefixes, match-unix unset/false/true, symbolic IPv4 client -- a rule matches iff every condition it has holds.")
TEXT["C12"].update(
    level=TEXT["C12"]["level"] + " Body-independent bounded check (Kani, real serialise_fixed as a black box): field width 4 (quick) / 16 (thorough), every value length up to width + 2, symbolic octets.")
TEXT["C07"].update(
    level=TEXT["C07"]["level"] + " OutQuery::handle_query_internal (Verus): the reply handed back answers a query carrying exactly the client's question; a reply that arrived over UDP is used only if it echoes the id that was sent and is not truncated (otherwise the exchange is repeated over TCP); a query that arrived over TCP is forwarded over TCP.")

TEXT["C20"].update(
    level=TEXT["C20"]["level"] + " Gauges (Verus, R9 slice of DhcpService::update_metrics): the active-leases gauge is set to the count of unexpired rows and the expired-leases gauge to the count of expired rows returned by get_pool_metrics, never swapped (emission-point precondition on Gauge::set).",
    note=TEXT["C20"]["note"].replace("update_metrics gauge wiring not under contract. ", ""))

TEXT["C14"].update(
    level=TEXT["C14"]["level"] + " One record (Verus, unbounded): after the owner name the encoder writes type, class and TTL as RFC 1035 3.2.1 lays them out, an RDLENGTH equal to the number of rdata octets it wrote (for every record type; for OPT whenever the options fit 65535 octets) and opaque rdata verbatim; "
          "the decoder reads exactly those fields at that position and, for every type without a structured form, RDLENGTH octets of data, leaving its cursor at the end of the record; lemma_record_roundtrip composes the two contracts: type, class, TTL and opaque data come back unchanged.")
TEXT["C04"].update(
    level=TEXT["C04"]["level"] + " Every record written carries an RDLENGTH that counts the rdata octets actually written (push_rr, all record types).")

TEXT["C15"].update(
    engine="verus+bounded",
    level=TEXT["C15"]["level"] + " Bounded (engine B, real parse_dns_route on YAML fragments): the route handed to the router carries exactly the configured suffix list -- every entry, in order -- and the configured handler, for every ordered list of up to 3 suffixes out of 5 nested / case-variant names; a list with an invalid name is refused.")
TEXT["C12"].update(
    level=TEXT["C12"]["level"] + " Bounded (engine B, real parse_options / DhcpOptions::serialise): the HashMap glue both Verus units assume -- per code, the decoded value is the concatenation of its instances in wire order (2955 option areas incl. repeated and equal instances); "
          "parse_options(serialise(t)) == t for values of 0, 1, 254..256, 509..511, 765 octets in three fill patterns. Kani: the integer option decoders (u16/u32/i32/u64) are total and big-endian for values of every length up to width + 2.")
TEXT["C05"].update(
    level=TEXT["C05"]["level"] + " Kani (black box, bounded): the integer DhcpParse impls never panic or overflow on values longer than the integer (reachable through RFC 3396 concatenation).")
TEXT["C07"].update(
    level=TEXT["C07"]["level"] + " Sending half of 'from the address it was addressed to' (Verus, unit netsend, R9 slice of erbium_net::socket::send_msg): the ancillary message handed to sendmsg(2) carries send_from in in_pktinfo.ipi_spec_dst (IPv4) / in6_pktinfo.ipi6_addr (IPv6) -- the fields Linux takes the source address from.")
TEXT["C17"].update(
    level=TEXT["C17"]["level"] + " Kani (complete): the PREF64 prefix-length-code table is RFC 8781's for all 256 lengths and all 65536 codes.")

TEXT["C11"].update(
    engine="verus+bounded",
    level=TEXT["C11"]["level"] + " Bounded (engine B, real apply_policies): an apply-<option> value is in the reply iff the client's parameter request list contains that option's OWN code (10 codes incl. pairs 128 apart x every list of up to 2 codes); netmask / broadcast defaults iff requested.")

TEXT["C06"].update(
    engine="verus+kani+bounded",
    level=TEXT["C06"]["level"] + " Bounded (engine B, real calculate_expiry / insert_cache_entry / get_entry, body-independent): for every history of up to 3 insertions under one key and 8 probe offsets around the boundaries, a reply is served from the cache iff the offset is below the smallest TTL of the reply inserted LAST, and every served TTL is the stored one minus the whole seconds elapsed.")

TEXT["C15"].update(
    engine="verus+kani+bounded",
    level=TEXT["C15"]["level"] + " Kani (black box, bounded): Domain::ends_with on names and suffixes of up to 2 labels of 1..2 symbolic octets -- whole labels, equal up to ASCII letter case only.")

TEXT["C02"].update(
    engine="verus+kani+bounded",
    level=TEXT["C02"]["level"] + " Bounded (engine B, real parse_policy on YAML fragments): a policy's address set is exactly the union of its apply-address / apply-range / apply-subnet keys in every key order, minus what a sub-policy reserves (30 fragments); ranges with equal, reversed and octet-crossing ends.")

TEXT["C17"].update(
    engine="verus+kani+bounded",
    level=TEXT["C17"]["level"] + " Bounded (engine B, real serialise_router_advertisement read back by an independent RFC 4861 option walker): captive-portal URLs of every length 0..=2050 (type 37, next multiple of 8, zero padding, nothing past 2038 octets), 510 DNS search lists, 0..=130 recursive DNS servers (split at 127).")

TEXT["C16"].update(
    engine="verus+kani+bounded",
    level=TEXT["C16"]["level"] + " Bounded (engine B, real IpRateLimiter): hash_ip is deterministic (the assumption the Verus unit makes about std's hasher) and 2000 back-to-back requests from one address are granted at most 2 x (BURST + RATE x elapsed) tokens.")
TEXT["C03"].update(
    engine="verus+kani+bounded",
    level=TEXT["C03"]["level"] + " 'TTLs only ever reduced': the cache lifetime is the smallest TTL of all three sections (Kani dns_ttl, bounded shapes), so the age subtracted never exceeds a TTL; the same on the real cache over insertion histories (engine B dns_cache).")

TEXT["C07"].update(
    level=TEXT["C07"]["level"] + " TcpNameserver::read_reply (Verus): conservation of the upstream TCP stream -- at the function's only await point and at its exits, the octets collected in the connection state followed by those still on the socket are exactly what was unread on entry minus the one whole frame handed out, whatever the segmentation; this is the state discipline that makes dropping the future (select! in run) harmless. The cancellation itself is not modelled.",
    note=TEXT["C07"]["note"] + " Defect D07b (a reply split across TCP segments was lost when another query arrived in between: read_exact is not cancel safe) was found by reading the code after a seeding agent pointed at it, demonstrated with a scripted upstream and fixed (fb2392c).")

TEXT["C08"].update(
    engine="verus+kani+bounded",
    level=TEXT["C08"]["level"] + " Which address the DNS ACL judges: emission-point precondition on the ACL layer (the peer of the datagram / accepted connection) in the R9 slices of run_udp / run_tcp (Verus); bounded, end to end over real loopback sockets (engine B): 3 ACL tables x TCP clients from 127.0.0.1/.2/.3 -- REFUSED iff the first rule matching the CLIENT's address does not grant dns-recursion.")

TEXT["C12"].update(
    level=TEXT["C12"]["level"] + " Completeness of the decoder (Verus): parse refuses a message only for being shorter than the 240-octet fixed part, for hlen > 16, for a wrong magic cookie or for an option stream the RFC decoding dec_opts refuses (parse_options: Err ==> dec_opts is None) -- so decode(encode(m)) exists for every hardware-address length 0..=16.")
TEXT["C14"].update(
    level=TEXT["C14"]["level"] + " 'Any size up to 65535 octets' (Verus, unbounded): pkt_max(m) is the size of m with every name written in full; push_rr never appends more than rr_max(rr) (compression only shortens: assumed contract of push_compressed_domain, bounded by Kani); serialise_with_size drops a record only when it has to (pkt_max(m) < size ==> all section counts and TC as in m), hence serialise() returns every message with pkt_max(m) <= 65535 whole and within 65535 octets.")
TEXT["C04"].update(
    level=TEXT["C04"]["level"] + " 'Complete whenever it fits' (Verus, unbounded): pkt_max(m) <= size ==> no record dropped, counts and TC as in the message (also exactly at the limit); the reply never exceeds pkt_max(m).")
TEXT["C05"].update(
    level=TEXT["C05"]["level"] + " Upstream TCP reply framing (Verus): TcpNameserver::read_reply slices the connection buffer only within its length (inbuf[2..2+l], rule R6c keeps the bounds as an obligation).")

TEXT["C01"].update(
    level=TEXT["C01"]["level"] + " Whose lease it is (engine B, handler level, bounded): for option 61 of 0, 1, 2 and 7 octets or absent, the record behind every OFFER/ACK names the client as identified on the wire (the option's octets, else chaddr).")
TEXT["C10"].update(
    level=TEXT["C10"]["level"] + " Handler level (engine B, bounded): 6 client histories x DISCOVER/REQUEST x 5 identities x option 51 in {absent, 0, 60, 3600, 2^32-1}: lease time within [300, 86400] and equal to the recorded window.")
TEXT["C02"].update(
    level=TEXT["C02"]["level"] + " First matching sibling (engine B, real apply_policies, body-independent): 1..=3 sibling policies, flat and under a match-all parent, every subset matching -- address set and option value are those of the first matching sibling (28 cases).")
TEXT["C11"].update(
    level=TEXT["C11"]["level"] + " `null` (engine B, real Config::parse_policy): apply-<name>: null and match-<name>: null parse to the option present with NO value for each of the 74 named options of every type.")
TEXT["C06"].update(
    level=TEXT["C06"]["level"] + " The engine-B ageing check covers replies with records in all three sections (answer, authority, additional).")
TEXT["C18"].update(
    level=TEXT["C18"]["level"] + " Lock contention (engine B, file-backed SQLite): while a second connection holds BEGIN IMMEDIATE / EXCLUSIVE, allocate_address either fails (no reply) or the lease it returns is on disk afterwards (8 cases).")
TEXT["C20"].update(
    level=TEXT["C20"]["level"] + " The document (engine B, real serve_leases over a DhcpService with an in-memory pool): for stores of 0, 1, 3 and 5 leases, client identifiers of 0, 1, 2, 6 and 255 octets and host names absent / plain / with quote and backslash / every control character / non-ASCII, plus stored option areas that do not decode (37 listings) the answer is 200 with valid JSON (RFC 8259 parser in the harness) carrying exactly one entry per lease with that lease's ip, client_id, start, expire and host name; a panic of the handler is a failure.")
TEXT["C03"].update(
    level=TEXT["C03"]["level"] + " 'Never dropped' on the transport that has room (Verus, R9 slice run_tcp_reply): what is written to a TCP client is the reply encoded with a limit of at least 65535 octets (emission-point precondition of TcpStream::write).")
TEXT["C01"].update(
    level=TEXT["C01"]["level"] + " The identity itself (Verus, unit dhcpgetters, real bodies): DhcpOptions::get_clientid is Some exactly when option 61 is in the table and returns its octets whatever their number; Dhcp::get_client_id == those octets, else chaddr (the contract client_id_of assumed by unit dhcphandlers).")
TEXT["C13"].update(
    level=TEXT["C13"]["level"] + " Which option each accessor reads (Verus, unit dhcpgetters, real bodies): get_serverid = option 54, get_address_request = 50, get_messagetype = 53, get_clientid = 61 -- the accessor contracts unit dhcphandlers assumes.")
TEXT["C14"].update(
    engine="verus+kani+bounded",
    level=TEXT["C14"]["level"] + " BOUNDED stand-in for the whole-message round trip (engine B, real serialise + real get_dns): 20 structured messages -- 1..1000 records of 8 kinds (A, NS, CNAME, PTR, MX, SOA, opaque data of 0/1/255/4000 octets) in all three sections, owner and embedded names sharing suffixes at every depth, with and without EDNS options, larger than 16 KiB, exactly 65534 and 65535 octets: decode(serialise(m)) exists, has m's id, question and records, and decode(serialise(.)) of it is itself.")
TEXT["C04"].update(
    engine="verus+bounded",
    level=TEXT["C04"]["level"] + " Bounded, body-independent (engine B, real serialise_with_size + real decoder): 14 structured messages x limits 512, 513, 600, 1232, 4096, full-1, full, full+1, 65535 (138 cases): never longer than the limit, decodes, keeps leading whole records section by section, TC exactly when a record is missing, nothing missing when the full encoding fits.")
