NOTES = ("Contract-based deductive verification of the real code. Engine V: Verus on functions extracted verbatim from /repo "
         "each run (rewrite rules listed in DESIGN.md 3.1 and logged per run in evidence.coverage.rewrites_applied). "
         "Engine K: Kani function contracts / loop-free complete harnesses on the real crate; bounded harnesses are labelled bounded. "
         "Engine B: bounded check of assumed SQL contracts on real SQLite. Exit 2 = undecided (tool limit), never an alarm.")

TEXT = {
 "C16": dict(
   technique="Verus contracts on GenericTokenBucket::{get_tokens_with_time,check,deplete} + inductive rate-bound lemma over the contracts",
   level="Unbounded deductive proof (Verus/Z3) that check/deplete on the real code equal the spec avail()/after_grant() for every bucket state, clock value and cost, "
         "and machine-checked lemmas that any event sequence is granted at most BURST + RATE*(t2-t1) and that a bucket idle for the refill period grants any cost <= BURST.",
   note="Assumed: std::cmp::max and u32::div_ceil specs; clock in [50, 0xF0000000]; deplete at the same clock reading as its check; one bucket (the two-bucket hashing, "
        "RwLock read-then-write race and HMAC cookie validation are not under contract yet).",
 ),
}

NA = {}
